#!/bin/bash
# try_mutant.sh <patch.diff> <check-id> [extra check args...]
# applies a seeded change to /repo, runs one check against it, and always restores /repo.
set -u
PATCH="$(readlink -f "$1")"; shift
ID="$1"; shift
cd /repo || exit 2
if [ -n "$(git status --porcelain)" ]; then echo "try_mutant: /repo is not clean"; exit 2; fi
if ! git apply --check "$PATCH" 2>/dev/null; then echo "try_mutant: patch does not apply"; exit 2; fi
git apply "$PATCH"
trap 'git -C /repo checkout -- . ; git -C /repo clean -fdq trzsz 2>/dev/null' EXIT
export GOFLAGS=-mod=mod GOPROXY=off GOSUMDB=off
if ! go build ./... >/dev/null 2>&1; then echo "try_mutant: does not build"; exit 2; fi
if ! go test -vet=off -count=1 ./... >/tmp/try_mutant_suite.log 2>&1; then echo "try_mutant: existing suite FAILS with the change"; tail -5 /tmp/try_mutant_suite.log; exit 3; fi
cd /verif
# what this run writes (replay files, evidence) describes the changed tree: none of it stays
ls replays > /tmp/try_mutant_replays.before 2>/dev/null
EVSAVE=$(mktemp -d /tmp/try_mutant_evidence.XXXXXX); cp -a evidence/. "$EVSAVE"/
# evidence goes back to what it was before this run (not to the committed version: a fresh clean sweep must survive)
cleanup_verif() { ls /verif/replays | grep -vxFf /tmp/try_mutant_replays.before | sed 's|^|/verif/replays/|' | xargs -r rm -f; git -C /verif checkout -q -- replays 2>/dev/null; cp -a "$EVSAVE"/. /verif/evidence/ 2>/dev/null; rm -rf "$EVSAVE"; }
trap 'git -C /repo checkout -- . ; git -C /repo clean -fdq trzsz 2>/dev/null; cleanup_verif' EXIT
timeout 1500 ./bin/check "$ID" --no-minimise "$@" 2>&1 | grep -E "^(VIOLATION|KNOWN-FINDING|check )" | cut -c1-300 | tail -6
echo "exit=${PIPESTATUS[0]}"
