#!/usr/bin/env python3
"""Generate /verif/MANIFEST.json from the table below (kept in one place so it stays valid)."""
import json, os, sys
V = os.path.dirname(os.path.dirname(os.path.abspath(__file__)))
props = [json.loads(l) for l in open(os.path.join(V, 'properties.jsonl'))]
ids = [p['id'] for p in props]

# id -> (category, level text, level note, technique, design ref)
claimed = {
 'C01': ('exploration',
   'Seeded deterministic simulation of whole transfers (real client filter, real relays, real trz/tsz mains inside one process under a fake clock and a seeded scheduler) over generated source trees, configuration vectors, transport segmentations/latencies and schedules; liveness (both sides report success on a fault-free link) and safety (file-system oracle: every reported name exists with exactly the source bytes and structure) are checked on every run. Sampling, not proof: the space is a product of unbounded inputs.',
   'Both ends are built from the same tree; pty layer, zenity dialogs and the fork re-exec itself are outside the simulation (DESIGN.md §5).',
   'deterministic simulation: synctest fake clock + AST-inserted gated yields + seeded scheduler/link/fault tape; FS and report oracles', '§4 C01'),
 'C07': ('exploration',
   'Seeded deterministic simulation of receives without -y into adversarially pre-populated destinations (colliding files and directories, name.N series with gaps, a name at the 255-byte limit, all 1001 candidate names taken, repeated transfer of the same sources through one filter), both receiving roles, protocols 1-4; oracle: before/after snapshot of the destination by inode, size, SHA-256 and mtime - nothing pre-existing changed, no new entry inside a pre-existing directory, every colliding source landed under one fresh name, reported names = used names, and failure (not reuse) when no fresh name exists.',
   'Same-tree peers; collisions are created before the transfer starts (concurrent creation of a colliding name by a third party during the transfer is not modelled).',
   'deterministic simulation (seeded schedules/segmentation) + file-system snapshot oracle', '§4 C07'),
 'C08': ('exploration',
   'Seeded deterministic simulation of -y transfers over destination content related to the source by relative length x first differing offset (on, just before, just after comparison-block boundaries, several blocks), protocols 2/3/4, both directions, base64/binary; the comparison block size is a per-run tuning knob (1 KiB-64 KiB) plus a batch at the shipped 10 MiB with 20-30 MiB files; oracle: destination bytes = source bytes after success, bystander untouched, and the remaining size the sender announces never implies skipping more than the longest common prefix of source and old destination.',
   'Same-tree peers. The knob is set through a var that exists only in the instrumented copy (const -> var rewrite).',
   'deterministic simulation + FS oracle + wire monitor (announced sizes vs longest common prefix)', '§4 C08'),
 'C15': ('exploration',
   'Component world: real archive reader feeding the real archive writer with independent tape-chosen read sizes and write segmentations, every single cut position for streams of at most 200 bytes, sources shrunk or grown between scan and read; system world: directories sent as one archive stream between the real client and real trz/tsz mains, including 150-300 entry trees, with the open-descriptor count of the process sampled at every quiescent point of the schedule (GC disabled so finalizers cannot hide a leak). Oracles: reconstructed tree = source tree, bytes produced = announced size, shrink reported as error, descriptors do not grow with the entry count.',
   'All simulated parties share one OS process, so descriptor counts are for client+server together; GC is disabled during a run on purpose.',
   'deterministic simulation (component + whole-system) with segmentation enumeration for short streams and a descriptor monitor', '§4 C15'),
 'C02': ('exploration',
   'Seeded deterministic simulation of transfers in which 1-3 byte-level faults (bit flip, deletion, duplication, insertion, tail truncation) hit tape-chosen chunks and positions (biased to the structural bytes of a protocol line) of either direction of one hop, in every phase from ACT to EXIT, for base64/binary/compressed/escaped transfers, protocols 1-4 and resume with hash exchange; oracle: any side that reports success names only files that are byte-identical to their sources, and otherwise both roles end (no hang). The trigger line itself is exempt (before it is recognised there is no transfer).',
   'Same-tree peers. Sampling of fault placements; per-position enumeration is planned for the thorough tier but not claimed.',
   'deterministic simulation with seeded byte-fault injection on the in-memory links; FS + report oracles', '§4 C02'),
 'C11': ('exploration',
   'Seeded deterministic simulation of transfers with one flow or local fault injected after the server has consumed the ACT: a direction or both go silent, a link closes or starts failing writes, a destination write fails (optionally after a short write), a source read fails, the source file shrinks under the reader, or a process is stalled for T/2, 1.5T or 3T; T in {2,5,20} s on the fake clock. Oracles: both roles return within 3*max(T,20s)+10s of the fault (hang = quiescence with a role still inside the transfer), a side reporting success has correct files, a failing side that can still talk writes a fail/FAIL line unless its error was the peer message, and after a grace period of 2T+2s no goroutine of the client process is still inside transfer worker code (goroutine dump filtered by bubble and simulated process).',
   'Same-tree peers; faults before the server has consumed the ACT are not placed (trz/tsz wait for the ACT without a timer by design); T <= 0 is not exercised.',
   'deterministic simulation with seeded flow/disk/process faults; termination, report and goroutine-leak monitors on the fake clock', '§4 C11'),
 'C10': ('exploration',
   'Seeded deterministic simulation of transfers stopped at a tape-chosen message after the handshake, under seeded schedules that decide whether the stop lands while a stage is blocked on a channel, in the buffer or in a sleep: user Ctrl-C plus keys through the real promptui prompt (stop and keep / stop and delete), the public StopTransferringFiles(bool), SIGINT/SIGTERM delivered to the real server main. Oracles: both roles return within 3*max(T,20s)+10s of the stop; the sides report Stopped / Stopped and deleted, or success only with fully correct files; with delete everything the transfer created is gone, files it had begun to replace are removed or intact, everything else is untouched; with keep a full-length destination file equals its source; bystanders untouched.',
   'Same-tree peers; stop instants are sampled per message, not enumerated; the keep-oracle checks full-length files only.',
   'deterministic simulation with seeded stop instants, real prompt path, simulated signals; termination/report/FS oracles', '§4 C10'),
 'C18': ('exploration',
   'Seeded deterministic simulation of protocol 3/4 transfers paused 1-3 times by Ctrl-C at tape-chosen messages and continued through the real prompt after a think time of 0.02T..3T (T in {2,5,20} s on the fake clock). Oracles: pause <= 0.8T => both sides succeed with identical files; pause >= 1.2T => success with identical files or an error, never a hang and never a wrong file (in between either); wire monitor: while the question is open the client writes at most two non-keep-alive data messages.',
   'Same-tree peers; the no-data-while-paused monitor looks at the client side (the side that owns the prompt).',
   'deterministic simulation with seeded pause instants and lengths on the fake clock; real prompt; FS/report oracles + wire monitor', '§4 C18'),
 'C09': ('exploration',
   'Seeded deterministic simulation: a protocol-aware link rewriter replaces the name in a NAME message between the real sender and the real receiver (plain names and JSON path lists: .. in any position, embedded separators, absolute paths, empty elements, over-long names, backslashes) for both receiving roles, -y on/off, -d on/off, protocols 1-4; a component batch feeds the real archive writer entry headers with hostile path lists. Oracle: before/after snapshot of the destination parent (canary file, sibling directory with a canary): nothing outside the destination is created, modified or removed; created-files list and reported names stay inside.',
   'Linux path semantics only (backslash is an ordinary character here); same-tree peers except for the injected names.',
   'deterministic simulation with a protocol-aware rewriter on the link (hostile peer); FS containment oracle', '§4 C09'),
 'C12': ('exploration',
   'Seeded deterministic simulation of transfers in which a protocol-aware link rewriter replaces the payload of 1-3 protocol lines sent to the attacked role by boundary values (numbers: -1, 0, +-1, 2^31, 2^62, 2^63-1, non-numeric, oversized; broken base64/zlib; truncated or wrongly typed JSON; hostile known fields), at every stage, both roles, protocols 1-4, base64/binary, with and without a progress display. Oracles: no panic or fatal error in any goroutine (worker crash attributed to the run via BEGIN/END markers and re-executed for its tape), allocation during the run bounded by 64 MiB + 16 x bytes moved (ulimit -v 8 GiB on the worker), both roles end, no percentage outside 0..100 on the terminal, transparency probe passes afterwards.',
   'Raw byte soup into the detectors (trigger/zmodem/OSC52/drag) is exercised by the C05 check, whose crashes would also stop this check; Windows/macOS drag-path syntaxes are not reachable on this host.',
   'deterministic simulation with a protocol-aware field rewriter (hostile peer), crash attribution, allocation monitor', '§4 C12'),
 'C13': ('exploration',
   'Seeded deterministic simulation of one real relay between a scripted client and a scripted server: 1-3 handshakes per run (confirm, cancel, malformed ACT, malformed CFG; ended by EXIT, fail from either side or Ctrl-C), arbitrary bytes before/after/in the same chunk as the trigger, ACT and CFG lines, LF-free junk in front of a handshake line, a CFG already in flight before the ACT, tape-chosen think times, segmentation and coalescing. Every atomic, lock and channel operation of relay.go and buffer.go is a scheduling point (inserted by rewriting the source at build time); schedules are random, PCT-style (1-3 priority change points) or run-to-block with rare preemption. Oracle: an executable reference model of both output streams - identity except the forwarded trigger (#R suffix, id re-tag), the ACT/CFG lines compared decoded field by field, consumed malformed lines and relay-made FAIL lines; nothing lost, duplicated, reordered or on the wrong side. Sensitivity: dropping the status re-check under the relay lock is caught in ~13% of runs.',
   'Sampling of interleavings, not enumeration. End-of-transfer markers, like triggers, are delivered within one read (the relay scans per read); markers racing with the end of the handshake are exercised by C14.',
   'deterministic simulation: seeded scheduler over AST-inserted scheduling points (random/PCT/run-to-block) + reference-model oracle over recorded byte streams', '§4 C13'),
 'C14': ('exploration',
   'Seeded deterministic simulation of two consecutive real transfers through one or two real relays (inside/outside tmux, normal/control mode), generated client capability sets (protocol 1-9, binary, directory support) and server options, with and without a tunnel (per-host port namespaces, relay tunnel hop), first transfer ended by exit, user stop through the prompt, server-side disk error or SIGINT at the server. Oracles: decoded ACT after the last relay (binary off without a tunnel, protocol <= 4 and <= offered, other fields preserved), decoded CFG at the client (server settings preserved, tmux junk flag and pane width added), files as in a direct transfer, every relay back in standby, no relay goroutine spinning, transparency probe through the relays in both directions, second transfer succeeds with identical files. Batch overtake: the end-of-transfer marker is sent as soon as the handshake lines have been seen, so it can reach the relay while it is still handshaking; the relay must still return to standby.',
   'Same-tree peers; refusal by the client (cancelled file dialog) is exercised at relay level by C13 only; end-of-transfer markers are delivered within one read.',
   'deterministic simulation of multi-party transfers (client, 1-2 relays, server) with wire monitors on every hop and relay-state / busy-loop monitors', '§4 C14'),
 'C05': ('exploration',
   'Seeded deterministic simulation of one real filter (option sets drag x tracelog x zmodem x OSC52) after a history of 0-3 real transfers (success, user stop through the prompt, SIGINT at the server), then 3-14 probe chunks in both directions with arbitrary segmentation/coalescing: random binary, VT100 sequences, truncated/corrupted trigger look-alikes, zmodem-like and OSC52-like fragments (vetoed zmodem headers, genuine OSC52 with a stubbed clipboard), scroll-back of finished transfers, control keys, path-like input naming files that do not exist, existing paths not in the dragged-path shape, bracketed paste. Oracle: bytes at the terminal == bytes written by the shell and bytes at the server side == bytes typed - same sequence, exactly once - and no transfer starts.',
   'The clause "the wrapped command exit status is passed on" is pty code outside the simulation and is not claimed. Zmodem headers, like triggers, are delivered within one read. Only the Linux drag-path detector runs on this host.',
   'deterministic simulation of the filter between a scripted shell and a scripted user after real transfer histories; exact stream equality oracle', '§4 C05'),
 'C06': ('exploration',
   'Seeded deterministic simulation feeding one real filter (with/without a tunnel connector) sequences of 3-12 chunks: genuine triggers from a grammar written from the servers print statements (modes S/R/D, versions 0.0.0-10.200.3000, ids absent/short/13 digits with role suffixes 00/10/20/22/15 digits, port absent/present, arbitrary prefix bytes in the same read, tmux control-mode framing), truncated and one-byte-corrupted triggers, redraws repeating a deduplicated id among the last 40, scroll-back transcripts; a scripted server refuses every ACT. Oracles: exactly one ACT (or, for an upload trigger with nothing to upload, exactly one fail line) per fresh genuine trigger and none otherwise; protocol 2 offered to 1.1.0-1.1.3 servers; Windows framing iff the id says so; connector called with the advertised port; tmux control-mode triggers only through a tunnel; negatives reach the terminal unmodified; what the filter shows locally starts nothing in a second real filter. Relay-forwarded triggers (#R, id re-tag) are checked against a real client in C13/C14.',
   'Repeated plain ...00 ids are not deduplicated by design and are not asserted either way.',
   'deterministic simulation of the filter against a scripted refusing server; per-chunk ACT/fail counting', '§4 C06'),
 'C17': ('exploration',
   'Seeded deterministic simulation of transfers with the tunnel offered (real listener/accept/authenticate code over an in-memory network with per-host ports, real client connector path, optional relay hop) while 0-3 attacker tasks connect at tape-chosen times with unrelated text, a greeting for another id, a truncated greeting, the greeting plus one byte, the greeting split across two writes, nothing, a flood of protocol-looking lines, or the right greeting after the genuine connection is in place; the genuine connector succeeds, refuses, returns late (1.1-3.1 s), returns a dead connection, or the server cannot listen; fail lines are injected in-band in both directions once the tunnel carries traffic. Oracles: the transfer succeeds with identical files in every case (so nothing from non-adopted connections or in-band reached it), a connection without the exact greeting receives nothing and is closed, a second correct greeting gets no transfer traffic, no more connections carry protocol traffic than there are tunnel hops. Sensitivity: HasPrefix instead of equality is caught.',
   'Whoever presents the exact greeting first is by definition the genuine party (the greeting is the secret); same-tree peers.',
   'deterministic simulation with attacker tasks on a simulated network, seeded arrival orders and schedules', '§4 C17'),
 'C19': ('exploration',
   'Seeded deterministic simulation of the real filter with zmodem enabled between a scripted remote rz/sz and a scripted local helper behind the os/exec substitute: helper behaviours (normal, exits non-zero, exits at once, never writes, writes late, missing from PATH) x server behaviours (finishes, cancels before/after the helper starts, keeps sending, goes quiet) x upload with/without files and download x Ctrl-C early/late x headers accompanied by a cancel sequence or "cannot open"; the 100 ms start delay, 500 ms quiet timer and 20 s timeouts run on the fake clock. Oracles: matching helper and working directory, started at most once, traffic bridged both ways, server told to cancel whenever the session did not complete, a silent helper cancelled or killed, vetoed headers start nothing and are shown unmodified, and 26 s later typed input reaches the server and a printed probe reaches the terminal.',
   'The start header arrives within one read (the detector works per read). The helper is a scripted stand-in, not lrzsz.',
   'deterministic simulation with scripted child process and remote peer, fake-clock timers, seeded schedules', '§4 C19'),
 'C03': ('exploration',
   'Seeded deterministic simulation of a real trzszBuffer between a producer task (chosen segmentation, pauses on the fake clock) and a consumer task issuing tape-chosen sequences of strict line reads, junk-tolerant line reads and sized binary reads (or clean Windows-framed reads). Streams of up to 12 bytes over the alphabet that matters are run under ALL 2^(n-1) segmentations within one evaluation; longer structured or random streams under four random segmentations of increasing density. Oracle: a small reference parser written from the statement (values, order, nothing lost/duplicated/merged, Ctrl-C interrupts; results compared up to the first interruption) plus promptness: after a pause in which the simulated world went quiet, every read whose answer had fully arrived has returned.',
   'The Windows reader takes part with clean framing only here; its noise behaviour is C16. The segmentation space of a stream is an input dimension; what simulation adds is the producer/consumer interleaving and the quiescence-based promptness check.',
   'deterministic simulation of producer/consumer tasks around the real buffer; reference-parser oracle; exhaustive segmentation for short streams', '§4 C03'),
 'C16': ('exploration',
   'Seeded deterministic simulation feeding the real recvCheck of a trzszTransfer (tmux junk-tolerant reader or Windows-console reader) protocol lines rendered with generated noise in tape-chosen segments (1 byte upwards) with pauses. tmux grammar: CR LF at any position (inside the marker, inside a status string, right before the terminator), unrelated text in front of the marker (never the expected marker itself), status control strings of the captured shape anywhere. Windows grammar: CSI sequences anywhere (including ones containing "!"), padding, CR LF, wrap with re-print, home pre-print, and a bare cursor move before an equal character (must be kept); a line feed plus cursor move that is not followed by a re-print is not generated. Optional Ctrl-C anywhere. Oracle: every payload comes back exactly; Ctrl-C inside a line interrupts.',
   'Noise grammars are written from the statement and the strings captured in the repository tests; nothing beyond them is asserted. System-level transfers through tmux-mode relays are exercised by C01/C14 without inserted wraps.',
   'deterministic simulation with generated noise grammars and seeded segmentation; exact payload equality oracle', '§4 C16'),
 'C20': ('exploration',
   'Seeded deterministic simulation of a real textProgressBar driven concurrently by a stepper task (names of every width class, sizes 0..2^62 and negative, repeats, regressions, overshoot, clock gaps 0 / 1 ms / 199-201 ms / 3 s / 5 h on the fake clock) and a resizer/pauser task (widths 1-500, pause on/off), with optional tmux pane width, tmux %output framing and colour pair. Oracle on every line the bar writes: display width (control sequences removed, tmux framing undone, runewidth cluster-aware measure) <= the largest width in force since the previous line, for widths >= 5; percentages within 0..100 and non-decreasing within a file; a panic or an endless render (no progress for 90 s of wall time) is attributed to the run and reported.',
   'The width bound as a function of (state, width) is a pure function and is sampled, not enumerated; what simulation adds is the clock-derived fields, the concurrent resize/pause and impossible step values. The monitor also runs inside C12 (percentages on the terminal).',
   'deterministic simulation of concurrent stepper/resizer tasks on a fake clock around the real progress bar; width and percentage monitors', '§4 C20'),
}
pending_reason = 'check not built yet in this session (deterministic simulation planned, see DESIGN.md §4); not claimed'
checks = []
for i in ids:
    if i not in claimed: continue
    cat, text, note, tech, ref = claimed[i]
    checks.append({
        'property_id': i,
        'quick_cmd': f'bin/check {i} --tier quick',
        'thorough_cmd': f'bin/check {i} --tier thorough',
        'evidence_file': f'/verif/evidence/{i}.json',
        'replay_cmd_template': f'bin/check {i} --replay {{path}}',
        'engine': 'verifsim',
        'level_claimed': {'category': cat, 'text': text, 'design_ref': ref},
        'level_note': note,
        'technique': tech,
    })
na_reasons = {}
na = [{'property_id': i, 'reason': na_reasons.get(i, pending_reason)} for i in ids if i not in claimed]
m = {
 'version': 1,
 'setup_cmd': 'scripts/setup.sh',
 'hooks': {
   'guard': 'verifsim',
   'enable': 'no hook is committed to /repo: every check copies the working tree to a scratch directory, instruments the copy with bin/vrewrite (AST rewriting: gated yields, select/go/mutex substitutes, process-local stdio, os/exec, os/signal and net.Listen stand-ins) and builds it with go1.26.8; the guard name is the injected package internal/verifsim, which exists only in the scratch copy',
   'baseline_off_cmd': "cd /repo && go test -vet=off -count=1 -timeout 25m ./...",
   'source_commits': [],
   'add_only': True,
 },
 'engines': [{'name': 'verifsim', 'path': '/verif/sim', 'serves_properties': sorted(claimed.keys()),
              'kind_free_text': 'deterministic simulation with fault injection: testing/synctest bubble (fake clock, quiescence) + build-time AST rewriting of a scratch copy (scheduling points before every channel/atomic/mutex/context operation) + seeded scheduler (random / PCT / run-to-block), in-memory links with tape-driven segmentation, latency and faults, simulated processes, TCP, exec and signals; one choice tape per run = replay file; tape minimisation'}],
 'checks': checks,
 'not_applicable': na,
 'notes': 'Exit codes of every check: 0 held, 1 with a VIOLATION line, 2 framework trouble (build/rewrite failure, watchdog, determinism self-check mismatch). Known findings are listed in /verif/known_findings.json.',
}
json.dump(m, open(os.path.join(V, 'MANIFEST.json'), 'w'), indent=1)
print('claimed:', sorted(claimed.keys()), 'unclaimed:', len(na))
