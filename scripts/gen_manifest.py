#!/usr/bin/env python3
"""Generate /verif/MANIFEST.json from the table below (kept in one place so it stays valid)."""
import json, os, sys
V = os.path.dirname(os.path.dirname(os.path.abspath(__file__)))
props = [json.loads(l) for l in open(os.path.join(V, 'properties.jsonl'))]
ids = [p['id'] for p in props]

# id -> (category, level text, level note, technique, design ref)
claimed = {
 'C01': ('exploration',
   'Seeded deterministic simulation of whole transfers (real client filter, real relays, real trz/tsz mains inside one process under a fake clock and a seeded scheduler) over generated source trees, configuration vectors, transport segmentations/latencies and schedules; liveness (both sides report success on a fault-free link) and safety (file-system oracle: every reported name exists with exactly the source bytes and structure) are checked on every run. Sampling, not proof: the space is a product of unbounded inputs.',
   'Both ends are built from the same tree; pty layer, zenity dialogs and the fork re-exec itself are outside the simulation (DESIGN.md §5).',
   'deterministic simulation: synctest fake clock + AST-inserted gated yields + seeded scheduler/link/fault tape; FS and report oracles', '§4 C01'),
}
pending_reason = 'check not built yet in this session (deterministic simulation planned, see DESIGN.md §4); not claimed'
checks = []
for i in ids:
    if i not in claimed: continue
    cat, text, note, tech, ref = claimed[i]
    checks.append({
        'property_id': i,
        'quick_cmd': f'bin/check {i} --tier quick',
        'thorough_cmd': f'bin/check {i} --tier thorough',
        'evidence_file': f'/verif/evidence/{i}.json',
        'replay_cmd_template': f'bin/check {i} --replay {{path}}',
        'engine': 'verifsim',
        'level_claimed': {'category': cat, 'text': text, 'design_ref': ref},
        'level_note': note,
        'technique': tech,
    })
na_reasons = {}
na = [{'property_id': i, 'reason': na_reasons.get(i, pending_reason)} for i in ids if i not in claimed]
m = {
 'version': 1,
 'setup_cmd': 'scripts/setup.sh',
 'hooks': {
   'guard': 'verifsim',
   'enable': 'no hook is committed to /repo: every check copies the working tree to a scratch directory, instruments the copy with bin/vrewrite (AST rewriting: gated yields, select/go/mutex substitutes, process-local stdio, os/exec, os/signal and net.Listen stand-ins) and builds it with go1.26.8; the guard name is the injected package internal/verifsim, which exists only in the scratch copy',
   'baseline_off_cmd': "cd /repo && go test -vet=off -count=1 -timeout 25m ./...",
   'source_commits': [],
   'add_only': True,
 },
 'engines': [{'name': 'verifsim', 'path': '/verif/sim', 'serves_properties': sorted(claimed.keys()),
              'kind_free_text': 'deterministic simulation with fault injection: testing/synctest bubble (fake clock, quiescence) + build-time AST rewriting of a scratch copy (scheduling points before every channel/atomic/mutex/context operation) + seeded scheduler (random / PCT / run-to-block), in-memory links with tape-driven segmentation, latency and faults, simulated processes, TCP, exec and signals; one choice tape per run = replay file; tape minimisation'}],
 'checks': checks,
 'not_applicable': na,
 'notes': 'Exit codes of every check: 0 held, 1 with a VIOLATION line, 2 framework trouble (build/rewrite failure, watchdog, determinism self-check mismatch). Known findings are listed in /verif/known_findings.json.',
}
json.dump(m, open(os.path.join(V, 'MANIFEST.json'), 'w'), indent=1)
print('claimed:', sorted(claimed.keys()), 'unclaimed:', len(na))
