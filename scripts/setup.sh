#!/bin/bash
# setup: build the driver and the rewriter from /verif sources (offline) and warm the build cache
set -euo pipefail
cd "$(dirname "$0")/.."
export GOFLAGS=-mod=mod GOPROXY=off GOSUMDB=off GOTOOLCHAIN=local
GO=/opt/veriftools/go1.26.8/bin/go
mkdir -p bin evidence replays
$GO build -o bin/check ./cmd/check
$GO build -o bin/vrewrite ./cmd/vrewrite
./bin/check setup
