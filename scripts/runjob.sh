#!/bin/bash
# runjob.sh '<job json>' : run one job on the newest cached sim binary (same mount-namespace layout as the driver), print the result JSON
BIN=$(ls -t /verif/.cache/*/sim.test | head -1)
D=$(mktemp -d /tmp/vjob.XXXX)
echo "$1" > $D/jobs.jsonl
mkdir -p $D/emptybin /tmp/vsimroot
R=/tmp/vsimroot
unshare -m sh -c "mount --bind $D $R && cd $R && env -i HOME=$R PATH=$R/emptybin TMPDIR=$R GODEBUG=asynctimerchan=0 GOMAXPROCS=1 GOTRACEBACK=all VERIF_JOBS=$R/jobs.jsonl VERIF_OUT=$R/out.jsonl $BIN -test.run '^TestVerifWorker\$' -test.timeout ${T:-120s} > $R/log 2>&1"
cat $D/out.jsonl 2>/dev/null || tail -50 $D/log
rm -rf $D
