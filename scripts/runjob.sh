#!/bin/bash
# runjob.sh '<job json>' : run one job on the newest cached sim binary, print the result JSON
BIN=$(ls -t /verif/.cache/*/sim.test | head -1)
D=$(mktemp -d /tmp/vjob.XXXX)
echo "$1" > $D/jobs.jsonl
mkdir $D/empty
(cd $D && env -i HOME=$D PATH=$D/empty TMPDIR=$D GODEBUG=asynctimerchan=0 GOMAXPROCS=4 GOTRACEBACK=all VERIF_JOBS=$D/jobs.jsonl VERIF_OUT=$D/out.jsonl $BIN -test.run '^TestVerifWorker$' -test.timeout ${T:-120s} > $D/log 2>&1)
cat $D/out.jsonl 2>/dev/null || tail -50 $D/log
rm -rf $D
