#!/bin/bash
# build_sim.sh <scratch-dir> : copy /repo's working tree, rewrite, inject runtime+harness, build sim.test
set -euo pipefail
S="$1"
VERIF="$(cd "$(dirname "$0")/.." && pwd)"
REPO="${VERIF_REPO:-/repo}"
export GOFLAGS=-mod=mod GOPROXY=off GOSUMDB=off GOTOOLCHAIN=local
export PATH=/opt/veriftools/go1.26.8/bin:$PATH
mkdir -p "$S/src"
rsync -a --delete --exclude .git "$REPO/" "$S/src/"
rm -f "$S"/src/trzsz/*_test.go
"$VERIF/bin/vrewrite" "$S/src" > "$S/rewrite.log"
mkdir -p "$S/src/internal/verifsim"
cp -r "$VERIF"/sim/runtime/* "$S/src/internal/verifsim/"
cp "$VERIF"/sim/harness/*.go "$S/src/trzsz/"
(cd "$S/src" && go test -c -o "$S/sim.test" ./trzsz)
