#!/bin/bash
# eval_mutant.sh <PROP> <mN> [check args...] : confirm a sub-agent's seeded change independently, then run the property's check against it
set -u
P="$1"; M="$2"; shift 2
SRC=/tmp/mut/$P/out/$M
[ -f "$SRC/patch.diff" ] || { echo "no patch at $SRC"; exit 2; }
export GOFLAGS=-mod=mod GOPROXY=off GOSUMDB=off
W=/tmp/mutval-$P-$M
git -C /repo worktree remove --force $W >/dev/null 2>&1
git -C /repo worktree add -q --detach $W HEAD || exit 2
DEMO=$(ls $SRC/*_test.go 2>/dev/null | head -1)
# the tests the demonstration defines (never a fixed naming convention: a pattern that matches nothing "passes")
RUNPAT='^('$(grep -oE '^func (Test[A-Za-z0-9_]+)' "$DEMO" 2>/dev/null | awk '{print $2}' | paste -sd'|')')$'
res_clean="n/a"; res_mut="n/a"; suite="n/a"
if [ -n "$DEMO" ]; then
  cp "$DEMO" $W/trzsz/zz_demo_test.go
  (cd $W && timeout 300 go test -vet=off -count=1 -run "$RUNPAT" -v ./trzsz >/tmp/mutval.clean.log 2>&1) && res_clean=PASS || res_clean=FAIL
fi
if git -C $W apply "$SRC/patch.diff" 2>/tmp/mutval.apply.log; then
  rm -f $W/trzsz/zz_demo_test.go
  (cd $W && go build ./... >/dev/null 2>&1 && timeout 300 go test -vet=off -count=1 ./... >/tmp/mutval.suite.log 2>&1) && suite=PASS || suite=FAIL
  if [ -n "$DEMO" ]; then
    cp "$DEMO" $W/trzsz/zz_demo_test.go
    (cd $W && timeout 300 go test -vet=off -count=1 -run "$RUNPAT" -v ./trzsz >/tmp/mutval.mut.log 2>&1) && res_mut=PASS || res_mut=FAIL
  fi
else
  suite="PATCH-DOES-NOT-APPLY"
fi
git -C /repo worktree remove --force $W >/dev/null 2>&1
grep -c '^=== RUN' /tmp/mutval.mut.log 2>/dev/null | sed 's/^/demo tests run with change: /'
echo "confirm $P/$M: demo-on-clean=$res_clean suite-with-change=$suite demo-with-change=$res_mut"
if [ "$suite" = PASS ]; then
  /verif/scripts/try_mutant.sh "$SRC/patch.diff" "$P" "$@"
fi
