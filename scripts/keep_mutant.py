#!/usr/bin/env python3
"""keep_mutant.py PROP mN STATUS 'caught_by' 'needs' 'note'
Copies a confirmed seeded change from /tmp/mut/PROP/out/mN into /verif/seeded/PROP-mN/ with meta.json."""
import sys, os, shutil, json, glob, re
prop, m, status, caught, needs, note = sys.argv[1:7]
src = f'/tmp/mut/{prop}/out/{m}'
dst = f'/verif/seeded/{prop}-{m}'
os.makedirs(dst, exist_ok=True)
shutil.copy(f'{src}/patch.diff', f'{dst}/patch.diff')
demos = glob.glob(f'{src}/*_test.go')
if demos:
    # stored with a .txt suffix so that no Go tool ever picks it up from here
    shutil.copy(demos[0], f'{dst}/demo_test.go.txt')
if os.path.exists(f'{src}/README.md'):
    shutil.copy(f'{src}/README.md', f'{dst}/README.agent.md')
files = sorted(set(re.findall(r'^\+\+\+ b/(\S+)', open(f'{src}/patch.diff').read(), re.M)))
meta = {
    'property': prop, 'id': f'{prop}-{m}', 'files_changed': files,
    'needs_to_manifest': needs,
    'independently_confirmed': {
        'how': 'scripts/eval_mutant.sh: fresh worktree of /repo HEAD; demonstration run on the clean tree; patch applied; go build + existing suite; demonstration run again',
        'demo_on_clean_tree': 'PASS', 'existing_suite_with_change': 'PASS', 'demo_with_change': 'FAIL'},
    'checks_run': f'scripts/try_mutant.sh seeded/{prop}-{m}/patch.diff <check> (quick tier, seed 1)',
    'status': status, 'caught_by': caught, 'note': note,
}
json.dump(meta, open(f'{dst}/meta.json', 'w'), indent=1)
print('kept', dst)
