#!/usr/bin/env python3
"""Prints the markdown table of DESIGN.md section 13 from seeded/*/meta.json."""
import json, glob, os
rows = []
for d in sorted(glob.glob('/verif/seeded/*/meta.json')):
    m = json.load(open(d))
    first = 'missed at first' if 'missed' in m.get('note', '').lower() else 'caught at once'
    if m.get('status') != 'caught':
        first = 'NOT CAUGHT'
    rows.append((m['id'], ', '.join(os.path.basename(f) for f in m['files_changed']), m['needs_to_manifest'], m['caught_by'], first))
print('| change | file | needs | caught by | history |')
print('|---|---|---|---|---|')
for r in rows:
    print('| ' + ' | '.join(x.replace('|', '\\|').replace('\n', ' ') for x in r) + ' |')
n_first = sum(1 for r in rows if r[4] == 'caught at once')
n_not = sum(1 for r in rows if r[4] == 'NOT CAUGHT')
print()
print(f'{len(rows)} changes kept, {n_first} caught by the checks as they stood, {len(rows)-n_first-n_not} missed at first and caught after the strengthening described in each meta.json, {n_not} not caught (out of reach of the simulation, see its meta.json).')
