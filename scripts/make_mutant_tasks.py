#!/usr/bin/env python3
"""make_mutant_tasks.py <first-name> <second-name> [focus-file]
Prepares a wave of seeded-change tasks for fresh sub-agents: one scratch worktree of /repo per property under
/tmp/mut/<id>, the property text in /tmp/mut/<id>.property.json and a task file /tmp/mut/<id>.task.md that names
the functions earlier waves already changed for that property (from seeded/*/patch.diff). The sub-agent is told
only "read the task file"; nothing from /verif is ever shown to it."""
import re, glob, json, collections, os, subprocess, sys
a, b = sys.argv[1], sys.argv[2]
focus = open(sys.argv[3]).read() if len(sys.argv) > 3 else ''
avoid = collections.defaultdict(set)
for d in sorted(glob.glob('/verif/seeded/*/patch.diff')):
    prop = os.path.basename(os.path.dirname(d)).split('-')[0]
    cur = None
    for line in open(d, errors='replace'):
        m = re.match(r'^\+\+\+ b/(\S+)', line)
        if m:
            cur = m.group(1)
        for pat in (r'^@@ .* @@ .*?func (\([^)]*\) )?(\w+)', r'^[ +-]func (\([^)]*\) )?(\w+)'):
            m = re.match(pat, line)
            if m and cur:
                avoid[prop].add(f'{os.path.basename(cur)}:{m.group(2)}')
os.makedirs('/tmp/mut', exist_ok=True)
for l in open('/verif/properties.jsonl'):
    p = json.loads(l)
    pid = p['id']
    wt = f'/tmp/mut/{pid}'
    subprocess.run(['git', '-C', '/repo', 'worktree', 'add', '-q', '--detach', wt, 'HEAD'], check=True)
    json.dump(p, open(f'/tmp/mut/{pid}.property.json', 'w'), indent=1)
    av = '\n'.join('- ' + x for x in sorted(avoid.get(pid, [])))
    open(f'/tmp/mut/{pid}.task.md', 'w').write(f'''# Task: two seeded changes that break one property of trzsz-go

You work ONLY inside `{wt}` (a scratch git worktree of the trzsz-go repository, Go module `github.com/trzsz/trzsz-go`).
Never touch `/repo` or `/verif`, never read anything under `/verif`. There is no network: every shell call needs
`export GOFLAGS=-mod=mod GOPROXY=off GOSUMDB=off`.

The property is in `/tmp/mut/{pid}.property.json` (id {pid}: "{p['title']}"). Read its statement, quantifier and
anchors, then read the code it is anchored in.

Produce TWO different, realistic changes to the Go sources under `trzsz/` - the kind of slip or "improvement" a
maintainer could plausibly commit - named `{a}` and `{b}`. Each change must:

1. still compile (`go build ./...`) and still pass the whole existing test suite
   (`go test -vet=off -count=1 ./...`; run it more than once, a few buffer tests are timing sensitive under load);
2. break THIS property end to end - in a way somebody who relies on the property would notice in real use -
   but only under something specific (a particular input, configuration, history, timing or ordering), not on
   every transfer;
3. be small (a few lines) and confined to one function where possible.

{focus.replace('@A@', a).replace('@B@', b)}
Earlier rounds already changed these functions for this property; do NOT touch them again (pick other functions,
other files, other mechanisms):
{av}

For each change deliver, under `{wt}/out/<name>/`:

* `patch.diff` - `git diff` of the change against the unmodified tree (only files under `trzsz/`);
* `demo_test.go` - a Go test file in `package trzsz` (it will be copied into `trzsz/`), test functions named
  `TestDemo...`, that demonstrates the break END TO END through the real code (real `TrzszFilter` / relay /
  `trz`/`tsz` entry points or their protocol functions over pipes - not a unit test of the changed function):
  it FAILS with the change applied and PASSES on the unchanged tree, reliably (run it several times both ways;
  you may force an interleaving or the moment of a fault with pipes, delays and repetition inside the test, but the
  unchanged tree must pass every time), in under 60 s, writing only below `t.TempDir()`, with `$TMUX` unset
  inside the test (`t.Setenv("TMUX", "")` / `os.Unsetenv`);
* `README.md` - what you changed and why it looks plausible, exactly what is needed for it to manifest, what the
  user sees, and the results you observed (suite with the change, demo with and without).

Also create `{wt}/out/go.mod` containing `module out` so that `go test ./...` ignores the directory.
When you are done, revert every tracked file (`git checkout -- .`): only `out/` may remain.
Keep each of your messages short; write files with tools, never paste long content into a message.
Finish with a short summary of the two changes.
''')
print('prepared', len(avoid), 'task files under /tmp/mut')
