// check is the driver of the deterministic-simulation checks (see /verif/DESIGN.md §2.1, §7).
//
//	check <ID> [--tier quick|thorough] [--seed N] [--runs N] [--workers N]
//	check <ID> --replay <file>
//	check setup            (warm the build cache)
//	check selftest-determinism [--runs N]
//
// Exit codes: 0 property held on everything explored (possibly with KNOWN-FINDING lines);
// 1 with "VIOLATION property=<ID> replay=<path>"; 2 framework trouble (never a VIOLATION line).
package main

import (
	"bufio"
	"bytes"
	"crypto/sha256"
	"encoding/hex"
	"encoding/json"
	"flag"
	"fmt"
	"io"
	"os"
	"os/exec"
	"path/filepath"
	"runtime"
	"sort"
	"strconv"
	"strings"
	"sync"
	"sync/atomic"
	"syscall"
	"time"
)

const goBin = "/opt/veriftools/go1.26.8/bin"

var verifDir string
var repoDir = "/repo"

type Job struct {
	ID     int               `json:"id"`
	Prop   string            `json:"prop"`
	Seed   uint64            `json:"seed"`
	Idx    int               `json:"idx"`
	Tier   string            `json:"tier"`
	Tape   []uint32          `json:"tape,omitempty"`
	Replay bool              `json:"replay,omitempty"`
	Trace  bool              `json:"trace,omitempty"`
	Params map[string]string `json:"params,omitempty"`
}

type Result struct {
	ID         int            `json:"id"`
	Prop       string         `json:"prop"`
	Seed       uint64         `json:"seed"`
	Idx        int            `json:"idx"`
	Class      string         `json:"class"`
	Kind       string         `json:"kind,omitempty"`
	Msg        string         `json:"msg,omitempty"`
	Sig        string         `json:"sig,omitempty"`
	Steps      int            `json:"steps"`
	SimMs      int64          `json:"sim_ms"`
	WallUs     int64          `json:"wall_us"`
	TraceHash  string         `json:"trace_hash"`
	Nontrivial bool           `json:"nontrivial"`
	ClassKey   string         `json:"class_key,omitempty"`
	Scenario   map[string]any `json:"scenario,omitempty"`
	Faults     map[string]int `json:"faults,omitempty"`
	Probes     map[string]int `json:"probes,omitempty"`
	Switches   int            `json:"switch_pairs"`
	Tape       []uint32       `json:"tape,omitempty"`
	TapeLen    int            `json:"tape_len"`
	TapeHash   string         `json:"tape_hash"`
	Trace      []string       `json:"trace,omitempty"`
	Detail     []string       `json:"detail,omitempty"`
	Batch      string         `json:"batch,omitempty"`
	job        *Job
}

func die(code int, format string, a ...any) {
	fmt.Fprintf(os.Stderr, "check: "+format+"\n", a...)
	os.Exit(code)
}

// ---------------------------------------------------------------------------------------------
// build (with a content-keyed cache so that back-to-back checks build once)

func hashTree(h io.Writer, root string, skip func(rel string) bool) {
	var files []string
	filepath.Walk(root, func(p string, info os.FileInfo, err error) error {
		if err != nil {
			return nil
		}
		rel, _ := filepath.Rel(root, p)
		if info.IsDir() {
			if rel == ".git" || (skip != nil && skip(rel)) {
				return filepath.SkipDir
			}
			return nil
		}
		if skip != nil && skip(rel) {
			return nil
		}
		files = append(files, rel)
		return nil
	})
	sort.Strings(files)
	for _, f := range files {
		b, err := os.ReadFile(filepath.Join(root, f))
		if err != nil {
			continue
		}
		fmt.Fprintf(h, "%s %d\n", f, len(b))
		h.Write(b)
	}
}

func treeHash() string {
	h := sha256.New()
	hashTree(h, repoDir, nil)
	hashTree(h, filepath.Join(verifDir, "sim"), nil)
	hashTree(h, filepath.Join(verifDir, "cmd", "vrewrite"), nil)
	return hex.EncodeToString(h.Sum(nil))[:20]
}

func goEnv() []string {
	env := []string{
		"HOME=" + os.Getenv("HOME"),
		"PATH=" + goBin + ":/usr/local/bin:/usr/bin:/bin",
		"GOFLAGS=-mod=mod", "GOPROXY=off", "GOSUMDB=off", "GOTOOLCHAIN=local",
	}
	for _, k := range []string{"GOCACHE", "GOMODCACHE", "GOPATH", "TMPDIR"} {
		if v := os.Getenv(k); v != "" {
			env = append(env, k+"="+v)
		}
	}
	return env
}

func run(dir string, env []string, name string, args ...string) ([]byte, error) {
	cmd := exec.Command(name, args...)
	cmd.Dir = dir
	cmd.Env = env
	return cmd.CombinedOutput()
}

// buildSim returns the path of a simulation test binary built from /repo's current working tree.
func buildSim() string {
	key := treeHash()
	cacheDir := filepath.Join(verifDir, ".cache")
	bin := filepath.Join(cacheDir, key, "sim.test")
	if _, err := os.Stat(bin); err == nil {
		now := time.Now()
		os.Chtimes(filepath.Join(cacheDir, key), now, now)
		return bin
	}
	// the rewriter itself
	vr := filepath.Join(verifDir, "bin", "vrewrite")
	if out, err := run(verifDir, goEnv(), filepath.Join(goBin, "go"), "build", "-o", vr, "./cmd/vrewrite"); err != nil {
		die(2, "building vrewrite failed: %v\n%s", err, out)
	}
	scratch, err := os.MkdirTemp("", "verif-build-")
	if err != nil {
		die(2, "mktemp: %v", err)
	}
	defer os.RemoveAll(scratch)
	src := filepath.Join(scratch, "src")
	if out, err := run("/", nil, "rsync", "-a", "--delete", "--exclude", ".git", repoDir+"/", src+"/"); err != nil {
		die(2, "rsync failed: %v\n%s", err, out)
	}
	tests, _ := filepath.Glob(filepath.Join(src, "trzsz", "*_test.go"))
	for _, t := range tests {
		os.Remove(t)
	}
	if out, err := run(scratch, goEnv(), vr, src); err != nil {
		die(2, "rewrite failed (the tree does not type-check or uses a construct the rewriter rejects): %v\n%s", err, out)
	}
	rt := filepath.Join(src, "internal", "verifsim")
	os.MkdirAll(rt, 0755)
	if out, err := run("/", nil, "cp", "-r", filepath.Join(verifDir, "sim", "runtime")+"/.", rt); err != nil {
		die(2, "copy runtime: %v\n%s", err, out)
	}
	hs, _ := filepath.Glob(filepath.Join(verifDir, "sim", "harness", "*.go"))
	for _, h := range hs {
		b, _ := os.ReadFile(h)
		os.WriteFile(filepath.Join(src, "trzsz", filepath.Base(h)), b, 0644)
	}
	tmpBin := filepath.Join(scratch, "sim.test")
	if out, err := run(src, goEnv(), filepath.Join(goBin, "go"), "test", "-c", "-o", tmpBin, "./trzsz"); err != nil {
		die(2, "building the simulation binary failed (harness does not compile against this tree): %v\n%s", err, out)
	}
	os.MkdirAll(filepath.Join(cacheDir, key), 0755)
	b, err := os.ReadFile(tmpBin)
	if err != nil {
		die(2, "read sim.test: %v", err)
	}
	if err := os.WriteFile(bin+".tmp", b, 0755); err != nil {
		die(2, "write cache: %v", err)
	}
	os.Rename(bin+".tmp", bin)
	// keep the three most recent entries
	ents, _ := os.ReadDir(cacheDir)
	type ce struct {
		name string
		t    time.Time
	}
	var list []ce
	for _, e := range ents {
		if info, err := e.Info(); err == nil && e.IsDir() {
			list = append(list, ce{e.Name(), info.ModTime()})
		}
	}
	sort.Slice(list, func(i, j int) bool { return list[i].t.After(list[j].t) })
	for i, e := range list {
		if i >= 3 && e.name != key {
			os.RemoveAll(filepath.Join(cacheDir, e.name))
		}
	}
	return bin
}

// ---------------------------------------------------------------------------------------------
// worker pool

type pool struct {
	bin      string
	workers  int
	chunk    int
	scratch  string
	memKB    int64
	nofile   int
	jobWall  time.Duration
	crashes  []*Result
	stuck    []*Result
	mu       sync.Mutex
	procSeq  int64
	procsRun int64
}

func (p *pool) runChunk(jobs []*Job) []*Result {
	var results []*Result
	for len(jobs) > 0 {
		seq := atomic.AddInt64(&p.procSeq, 1)
		atomic.AddInt64(&p.procsRun, 1)
		dir := filepath.Join(p.scratch, fmt.Sprintf("w%d", seq))
		os.MkdirAll(dir, 0755)
		jf := filepath.Join(dir, "jobs.jsonl")
		of := filepath.Join(dir, "out.jsonl")
		var jb bytes.Buffer
		for _, j := range jobs {
			b, _ := json.Marshal(j)
			jb.Write(b)
			jb.WriteByte('\n')
		}
		os.WriteFile(jf, jb.Bytes(), 0644)
		emptyPath := filepath.Join(dir, "emptybin")
		os.MkdirAll(emptyPath, 0755)
		lim := ""
		if p.memKB > 0 {
			lim += fmt.Sprintf("ulimit -v %d; ", p.memKB)
		}
		if p.nofile > 0 {
			lim += fmt.Sprintf("ulimit -n %d; ", p.nofile)
		}
		// Every worker sees its private directory under the same absolute path (a bind mount in a
		// private mount namespace): file names end up in protocol messages, so the path must be
		// byte-identical between an execution and its replay for the run to be exactly repeatable.
		root := dir
		var cmd *exec.Cmd
		if useNamespace() {
			root = mountPoint
			cmd = exec.Command("/usr/bin/unshare", "-m", "/bin/sh", "-c",
				`/usr/bin/mount --bind "$1" `+mountPoint+` && shift && cd `+mountPoint+` && `+lim+`exec "$@"`,
				"sh", dir, p.bin, "-test.run", "^TestVerifWorker$", "-test.timeout", "0")
		} else {
			cmd = exec.Command("/bin/sh", "-c", lim+`exec "$0" "$@"`, p.bin, "-test.run", "^TestVerifWorker$", "-test.timeout", "0")
		}
		cmd.Dir = dir
		cmd.Env = []string{
			"HOME=" + root, "PATH=" + filepath.Join(root, "emptybin"), "TMPDIR=" + root,
			"GODEBUG=asynctimerchan=0", "GOMAXPROCS=" + gomaxprocs(), "GOTRACEBACK=all",
			"VERIF_JOBS=" + filepath.Join(root, "jobs.jsonl"), "VERIF_OUT=" + filepath.Join(root, "out.jsonl"),
		}
		var stderr bytes.Buffer
		cmd.Stdout = &stderr
		cmd.Stderr = &stderr
		cmd.SysProcAttr = &syscall.SysProcAttr{Setpgid: true}
		if err := cmd.Start(); err != nil {
			die(2, "cannot start worker: %v", err)
		}
		done := make(chan error, 1)
		go func() { done <- cmd.Wait() }()
		// watchdog: no progress for jobWall => kill
		progPath := of + ".progress"
		lastSize := int64(-1)
		lastChange := time.Now()
		killed := false
		var werr error
	wait:
		for {
			select {
			case werr = <-done:
				break wait
			case <-time.After(500 * time.Millisecond):
				if st, err := os.Stat(progPath); err == nil && st.Size() != lastSize {
					lastSize = st.Size()
					lastChange = time.Now()
				}
				if time.Since(lastChange) > p.jobWall {
					syscall.Kill(-cmd.Process.Pid, syscall.SIGKILL)
					killed = true
				}
			}
		}
		// collect
		byID := map[int]*Job{}
		for _, j := range jobs {
			byID[j.ID] = j
		}
		finished := map[int]bool{}
		if f, err := os.Open(of); err == nil {
			sc := bufio.NewScanner(f)
			sc.Buffer(make([]byte, 1<<20), 1<<28)
			for sc.Scan() {
				var r Result
				if json.Unmarshal(sc.Bytes(), &r) == nil {
					r.job = byID[r.ID]
					finished[r.ID] = true
					rr := r
					results = append(results, &rr)
				}
			}
			f.Close()
		}
		var began []int
		if b, err := os.ReadFile(progPath); err == nil {
			for _, l := range strings.Split(string(b), "\n") {
				if strings.HasPrefix(l, "BEGIN ") {
					id, _ := strconv.Atoi(strings.TrimPrefix(l, "BEGIN "))
					began = append(began, id)
				}
			}
		}
		var rest []*Job
		var culprit *Job
		for _, id := range began {
			if !finished[id] {
				culprit = byID[id]
			}
		}
		for _, j := range jobs {
			if !finished[j.ID] && j != culprit {
				rest = append(rest, j)
			}
		}
		if culprit != nil {
			r := &Result{ID: culprit.ID, Prop: culprit.Prop, Seed: culprit.Seed, Idx: culprit.Idx, job: culprit}
			tail := stderr.String()
			if killed {
				r.Class = "stuck"
				r.Msg = "worker made no progress for " + p.jobWall.String() + " (killed)"
			} else {
				r.Class = "crash"
				r.Kind = "crash"
				r.Msg = crashSummary(tail)
				r.Sig = crashSig(tail)
				r.Detail = crashStack(tail)
			}
			results = append(results, r)
		} else if werr != nil && len(rest) > 0 {
			die(2, "worker failed before starting a job: %v\n%s", werr, tailStr(stderr.String(), 3000))
		} else if werr != nil && len(rest) == 0 && len(began) < len(jobs) {
			die(2, "worker failed: %v\n%s", werr, tailStr(stderr.String(), 3000))
		}
		os.RemoveAll(dir)
		jobs = rest
	}
	return results
}

// gomaxprocs for the workers: 1 makes klauspost/zstd encode and decode synchronously in the calling
// goroutine (its worker pool is sized from GOMAXPROCS), which removes the only library goroutines
// whose real-time progress could influence which trzsz goroutine is runnable at a quiescent point.
func gomaxprocs() string {
	if v := os.Getenv("VERIF_GOMAXPROCS"); v != "" {
		return v
	}
	return "1"
}

const mountPoint = "/tmp/vsimroot"

var nsOnce sync.Once
var nsOK bool

// useNamespace reports whether private mount namespaces are available (they are for root in this
// sandbox). Without them workers fall back to their own directories, and exact repeatability
// then holds only between executions that happen to get the same directory.
func useNamespace() bool {
	nsOnce.Do(func() {
		os.MkdirAll(mountPoint, 0755)
		cmd := exec.Command("/usr/bin/unshare", "-m", "/bin/sh", "-c", `/usr/bin/mount --bind "$0" `+mountPoint, os.TempDir())
		nsOK = cmd.Run() == nil
		if !nsOK {
			fmt.Fprintln(os.Stderr, "check: warning: mount namespaces unavailable; replay exactness is reduced")
		}
	})
	return nsOK
}

func tailStr(s string, n int) string {
	if len(s) > n {
		return s[len(s)-n:]
	}
	return s
}

func crashSummary(out string) string {
	for _, marker := range []string{"panic: ", "fatal error: "} {
		if i := strings.Index(out, marker); i >= 0 {
			line := out[i:]
			if j := strings.IndexByte(line, '\n'); j >= 0 {
				line = line[:j]
			}
			return line
		}
	}
	return "worker died: " + tailStr(strings.TrimSpace(out), 300)
}

// crashStack returns the frames of the panicking goroutine (function names only).
func crashStack(out string) []string {
	i := strings.Index(out, "panic: ")
	if i < 0 {
		i = strings.Index(out, "fatal error: ")
	}
	if i < 0 {
		return nil
	}
	rest := out[i:]
	j := strings.Index(rest, "\ngoroutine ")
	if j < 0 {
		return nil
	}
	rest = rest[j+1:]
	if k := strings.Index(rest, "\n\n"); k >= 0 {
		rest = rest[:k]
	}
	var frames []string
	for _, l := range strings.Split(rest, "\n") {
		if strings.HasPrefix(l, "\t") || strings.HasPrefix(l, "goroutine ") || l == "" {
			continue
		}
		if p := strings.LastIndex(l, "("); p > 0 {
			l = l[:p]
		}
		frames = append(frames, l)
		if len(frames) >= 12 {
			break
		}
	}
	return frames
}

// crashSig = panic message class + innermost frames inside the package under test.
func crashSig(out string) string {
	msg := crashSummary(out)
	// strip numbers so that different inputs hitting the same site share a signature
	var b strings.Builder
	for _, c := range msg {
		if c >= '0' && c <= '9' {
			continue
		}
		b.WriteRune(c)
	}
	sig := "crash:" + strings.TrimSpace(b.String())
	n := 0
	for _, f := range crashStack(out) {
		if strings.Contains(f, "trzsz-go/trzsz.") && !strings.Contains(f, "zz_verif") && !strings.Contains(f, "vScenario") {
			f = f[strings.Index(f, "trzsz-go/trzsz.")+len("trzsz-go/trzsz."):]
			sig += "|" + f
			n++
			if n >= 2 {
				break
			}
		}
	}
	return sig
}

func (p *pool) runAll(jobs []*Job) []*Result {
	var chunks [][]*Job
	for i := 0; i < len(jobs); i += p.chunk {
		e := i + p.chunk
		if e > len(jobs) {
			e = len(jobs)
		}
		chunks = append(chunks, jobs[i:e])
	}
	ch := make(chan []*Job, len(chunks))
	for _, c := range chunks {
		ch <- c
	}
	close(ch)
	var mu sync.Mutex
	var all []*Result
	var wg sync.WaitGroup
	for i := 0; i < p.workers; i++ {
		wg.Add(1)
		go func() {
			defer wg.Done()
			for c := range ch {
				rs := p.runChunk(c)
				mu.Lock()
				all = append(all, rs...)
				mu.Unlock()
			}
		}()
	}
	wg.Wait()
	sort.Slice(all, func(i, j int) bool { return all[i].ID < all[j].ID })
	return all
}

// ---------------------------------------------------------------------------------------------
// property table

type batch struct {
	name     string
	params   map[string]string
	quick    int
	thorough int
	chunk    int
	// enumeration batch: every base scenario (idx) is run once without a fault to count the candidate
	// places, then once per (place, kind, position)
	enumKinds int
	enumPos   int
	enumBases int // base scenarios in the thorough tier (quick tier: quick)
	// dense enumeration: every bit of every byte of each candidate write no longer than enumDense bytes
	enumDense    int
	enumDenseMin int // writes shorter than this are skipped (another batch covers them)
}

type propDef struct {
	id          string
	level       string
	batches     []batch
	crashIsViol bool
	// a run that makes no progress for the whole wall-clock watchdog counts against the property (the
	// properties that say "never a hang"): an endless loop in the code under test is one
	stuckIsViol bool
	memKB       int64
	nofile      int
	jobWall     time.Duration
	rule        string
	assumptions []string
}

var commonAssumptions = []string{
	"both ends of every simulated conversation are built from the same source tree",
	"simulation builds use go1.26.8 with GODEBUG=asynctimerchan=0 (synctest requirement); the package only receives from timer channels, so the difference to the shipped go 1.20 timer semantics is assumed unobservable",
	"library goroutines that are not gated (klauspost zstd workers, readline) are assumed confluent",
	"pty, raw-mode terminal calls, zenity dialogs, system clipboard, tmux/stty/lrzsz child processes, TCP and OS signals are simulated stand-ins (DESIGN.md §2.6)",
}

var props = map[string]*propDef{}

func reg(p *propDef) { props[p.id] = p }

func init() {
	reg(&propDef{id: "C01", level: "exploration", crashIsViol: true,
		batches: []batch{{name: "faultfree", params: map[string]string{"full": "1"}, quick: 2400, thorough: 60000},
			{name: "manyfiles", params: map[string]string{"many": "1"}, quick: 16, thorough: 300, chunk: 1},
			{name: "bufedge", params: map[string]string{"bufedge": "1"}, quick: 500, thorough: 20000}},
		rule:    "each evaluation is one simulated end-to-end transfer (generated source tree x configuration vector x transport profile x schedule) on a fault-free link; non-trivial = both sides reported success and the file-system oracle compared every transferred entry; distinct = distinct (configuration class, schedule-trace hash) pairs"})
	reg(&propDef{id: "C02", level: "exploration", crashIsViol: false, stuckIsViol: true,
		batches: []batch{{name: "bytefaults", quick: 3000, thorough: 60000},
			{name: "enumerated", quick: 2, thorough: 60, enumKinds: 5, enumPos: 6, enumBases: 60},
			{name: "enumerated-resume", params: map[string]string{"resume": "1"}, quick: 6, thorough: 80, enumKinds: 5, enumPos: 6, enumBases: 80},
			{name: "dataflips", params: map[string]string{"dataflips": "1"}, quick: 2, thorough: 16, enumKinds: 1, enumDense: 700, enumDenseMin: 161, enumBases: 16},
			{name: "bitflips", params: map[string]string{"resume": "1"}, quick: 2, thorough: 12, enumKinds: 1, enumDense: 160, enumBases: 12}},
		rule:    "each evaluation is one simulated transfer (1-3 small files, protocols 1-4, base64/binary/compressed/escaped, resume with hash exchange) in which 1-3 byte-level faults (bit flip, deletion, duplication, insertion, truncation) are applied to tape-chosen chunks and positions (biased to the structural bytes of a line) of either direction of one hop; non-trivial = at least one fault actually altered bytes and both roles ended; distinct = distinct (configuration + fault placement class, schedule-trace hash, tape hash); batches enumerated / enumerated-resume: one run per (write of one hop x fault kind x structural position) of a base scenario; batch bitflips: one run per bit of every byte of each control line (<= 160 bytes) of a resumed transfer"})
	reg(&propDef{id: "C11", level: "exploration", crashIsViol: false, stuckIsViol: true,
		batches: []batch{{name: "flowfaults", quick: 2600, thorough: 60000},
			{name: "enumerated", quick: 3, thorough: 80, enumKinds: 13, enumPos: 1, enumBases: 80},
			{name: "slowdisk", params: map[string]string{"slowdisk": "1"}, quick: 32, thorough: 600, chunk: 4},
			{name: "resumefail", params: map[string]string{"resume": "1"}, quick: 500, thorough: 15000}},
		rule:    "batch resumefail: transfers that resume over an older destination (-y, protocol 3/4) in which a local failure strikes - the source is cut right when its name goes out (before or during the prefix-hash exchange), a source read fails, a destination write fails - half of them under -t 0 (never time out): both sides still end, within the bound, with an error told to the peer and no worker left. Other batches: each evaluation is one simulated transfer in which, after the ACT has been written towards the server, one fault is injected at a tape-chosen message: a direction (or both) goes silent, a link closes or starts failing writes, a destination write fails (optionally after a short write), a source read fails, the source file shrinks under the reader, or one process is stalled for T/2, 1.5T or 3T; non-trivial = the fault fired and termination, reports, fail lines and the goroutine-leak monitor were all evaluated; distinct = distinct (configuration + fault kind + hop, schedule-trace hash, tape hash)"})
	reg(&propDef{id: "C09", level: "exploration", crashIsViol: false,
		batches: []batch{{name: "names", params: map[string]string{"mode": "system"}, quick: 1600, thorough: 60000},
			{name: "archive", params: map[string]string{"mode": "archive"}, quick: 600, thorough: 20000}},
		rule: "batch names: one simulated transfer between the real sender and the real receiver in which a link rewriter replaces the name in one NAME message (plain name, or the JSON path list in directory / protocol >= 3 mode) by a hostile one ('..' in any position, embedded '/', absolute path, empty element, over-long, '\\'), x -y x -d x protocols 1-4 x both receiving roles; batch archive: the real archive writer fed an entry header with a hostile path list; oracle: snapshot of the destination's parent (canary file, sibling directory) before/after - nothing outside the destination created, modified or removed; non-trivial = a hostile name was injected and the snapshot compared; distinct = distinct (configuration + injected name, schedule-trace hash, tape hash)"})
	reg(&propDef{id: "C12", level: "exploration", crashIsViol: true, memKB: 8 << 20,
		batches: []batch{{name: "fields", quick: 3000, thorough: 120000},
			{name: "relayhs", params: map[string]string{"relayhs": "1"}, quick: 1200, thorough: 40000},
			{name: "resume", params: map[string]string{"resume": "1"}, quick: 800, thorough: 30000},
			{name: "archive", params: map[string]string{"mode": "archive"}, quick: 1500, thorough: 60000},
			{name: "terminal", params: map[string]string{"mode": "terminal"}, quick: 1200, thorough: 40000}},
		rule:    "each evaluation is one simulated transfer in which a link rewriter replaces the payload of 1-3 tape-chosen protocol lines sent to the attacked role (server or client) by boundary values: numbers (-1, 0, +-1 of the expected, 2^31, 2^62, 2^63-1, non-numeric, oversized), broken base64/zlib, truncated or wrongly typed JSON, hostile known fields; with and without a progress display, terminal widths 6-80; oracles: no panic/fatal error in any goroutine (a crash of the worker process is attributed to the run and re-executed), allocation during the run <= 64 MiB + 16 x bytes moved, both roles end, no percentage outside 0..100 on the terminal, and a transparency probe in both directions passes afterwards; raw binary blocks ending in the escape leader under every protocol version, and a terminal width that was never told with a hostile pane width; batch archive: hostile archive entry headers written to the real archive writer in tape-chosen segments; batch terminal: hostile terminal output in front of the idle client with the read boundary at tape-chosen or at every position; non-trivial = an edit fired (a hostile entry / read was fed) and all oracles ran; distinct = distinct (configuration + attacked role, schedule-trace hash, tape hash)"})
	reg(&propDef{id: "C10", level: "exploration", crashIsViol: false, stuckIsViol: true,
		batches: []batch{{name: "stops", quick: 2400, thorough: 60000},
			{name: "enumerated", quick: 4, thorough: 120, enumKinds: 6, enumPos: 1, enumBases: 120}},
		rule:    "each evaluation is one simulated transfer stopped at a tape-chosen message after the handshake by one of: user Ctrl-C plus prompt keys through the real promptui prompt (keep / delete), the public StopTransferringFiles(bool), SIGINT or SIGTERM delivered to the server main; non-trivial = the stop fired and termination bound, reports, delete/keep semantics and bystander files were all evaluated; distinct = distinct (configuration + stop kind, schedule-trace hash, tape hash)"})
	reg(&propDef{id: "C16", level: "exploration", crashIsViol: true,
		batches: []batch{{name: "noise", quick: 4000, thorough: 150000},
			{name: "relaywin", params: map[string]string{"relaywin": "1"}, quick: 1200, thorough: 40000}},
		rule:    "each evaluation feeds a real trzszTransfer (tmux junk-tolerant reader or Windows-console reader) 1-4 protocol lines rendered with tape-chosen noise, in tape-chosen segments (including 1-byte segments) with pauses, and reads them back with the real recvCheck under seeded schedules; tmux grammar: CR LF at any position (inside the marker, inside a status string, right before the terminator), unrelated text in front of the marker, status control strings of the captured shape anywhere; Windows grammar: CSI sequences anywhere (also containing '!'), padding (space, tab, BS, CR), CR LF, wrap with re-print, home pre-print, and a bare cursor move before an equal character (must be kept); optionally one Ctrl-C anywhere; oracle: returned payload == original payload for every line, Ctrl-C interrupts; non-trivial = all lines compared; distinct = distinct (reader + noise kinds, schedule-trace hash, tape hash)"})
	reg(&propDef{id: "C17", level: "exploration", crashIsViol: true,
		batches: []batch{{name: "tunnel", quick: 2400, thorough: 90000}},
		rule:    "each evaluation is one simulated transfer with the tunnel offered (real listener code on an in-memory network with per-host ports, real client connector path, optionally one relay with its own tunnel hop) while 0-3 attacker tasks connect to the server's or the relay's port at tape-chosen times with: unrelated text, the greeting for another id, a truncated greeting, the greeting plus one byte, the greeting split across two writes, nothing, a flood of protocol-looking lines, or the right greeting after the genuine connection is in place - and keep writing fail lines afterwards; the client's connector succeeds, refuses, returns late (1.1-3.1 s), returns a dead connection, or the server cannot listen; once the tunnel carries traffic, fail lines are injected in-band in both directions; oracles: the transfer succeeds with identical files (C01 oracle) in every case, a connection that did not present the greeting receives nothing and is closed, a second correct greeting gets no transfer traffic, no more connections carry protocol traffic than there are tunnel hops; non-trivial = oracles evaluated; distinct = distinct (configuration + connector outcome + attacker kinds, schedule-trace hash, tape hash)"})
	reg(&propDef{id: "C19", level: "exploration", crashIsViol: true,
		batches: []batch{{name: "zmodem", quick: 2000, thorough: 80000}},
		rule:    "each evaluation is one real filter with zmodem enabled, a scripted remote rz/sz (start header within one read, optionally accompanied by a cancel sequence or 'cannot open'; then finishes, cancels early or late, keeps sending, or goes quiet) and a scripted local helper behind the os/exec substitute (normal, exits non-zero, exits at once, never writes, writes late, missing from PATH), upload with and without files to send, download, optional Ctrl-C early or late; all timers (100 ms start delay, 500 ms quiet timer, 20 s timeouts) run on the fake clock; oracles: after a Ctrl-C within the first 120 ms the server is told within a second, matching helper and directory, started at most once, traffic bridged both ways in clean sessions, server told to cancel whenever the session did not complete, a silent helper cancelled or killed, vetoed headers start nothing and are shown, and after 26 s typed input reaches the server and a printed probe reaches the terminal; non-trivial = all of that evaluated; distinct = distinct (case class, schedule-trace hash, tape hash)"})
	reg(&propDef{id: "C18", level: "exploration", crashIsViol: false, stuckIsViol: true,
		batches: []batch{{name: "pauses", quick: 2400, thorough: 60000},
			{name: "pauseread", params: map[string]string{"pauseread": "1"}, quick: 1500, thorough: 40000},
			{name: "enumerated", quick: 4, thorough: 120, enumKinds: 6, enumPos: 1, enumBases: 120}},
		rule:    "each evaluation is one simulated transfer (protocol 3 or 4, T in {2,5,20} s) paused 1-3 times at tape-chosen messages by Ctrl-C and continued through the real prompt after a think time of 0.02T..3T; non-trivial = at least one pause/continue cycle completed and the outcome rules (short pause => success with identical files; long pause => success or error, never a hang or a wrong file) and the no-data-while-paused monitor were evaluated; batch pauseread: a real trzszTransfer (protocol 3/4, T in {1,2,5,20} s, plain, tmux-junk or Windows reader) whose consumer task calls recvCheckV2 while a producer task delivers 0-2 whole lines, then k bytes of a line (k = 0..len-1), opens the question after a lead, answers after a pause and delivers the rest after a further delay (each a fraction of T below 1, 1-2 cycles); oracle: every line is returned whole and without error, whether the deadline of the pending read runs out while the question is open or after the answer; distinct = distinct (configuration + pause band + cycles, schedule-trace hash, tape hash)"})
	reg(&propDef{id: "C03", level: "exploration", crashIsViol: true,
		batches: []batch{{name: "buffer", quick: 3000, thorough: 120000},
			{name: "pumps", params: map[string]string{"pumps": "1"}, quick: 500, thorough: 15000}},
		rule:    "batch pumps: whole fault-free transfers (no tunnel: every protocol byte passes the terminal-side pumps of both ends) over links that cut nearly every write into 1-10 pieces with a bias to lone first bytes; oracle: success and identical files, as without any cutting. Batch buffer: each evaluation drives a real trzszBuffer with a producer task (addBuffer in a chosen segmentation, optional 1 ms pauses on the fake clock) and a consumer task issuing a tape-chosen sequence of strict line reads, junk-tolerant line reads and sized binary reads (or clean Windows-framed reads), under seeded schedules; streams of up to 12 bytes over {a,b,#,:,9,LF,CR,Ctrl-C} are run under ALL 2^(n-1) segmentations inside the same evaluation, longer streams (20-620 bytes, structured or random) under four random segmentations of increasing density; oracle: a 40-line reference parser applied to the concatenated stream (same values, same order, nothing lost/duplicated/merged, Ctrl-C interrupts) and promptness (after a pause during which the world went quiet, every read whose answer was complete has returned); non-trivial = at least one complete answer compared; distinct = distinct (class, schedule-trace hash, tape hash)"})
	reg(&propDef{id: "C20", level: "exploration", crashIsViol: true,
		batches: []batch{{name: "progress", quick: 4000, thorough: 150000},
			{name: "system", params: map[string]string{"system": "1"}, quick: 600, thorough: 20000}},
		rule:    "each evaluation drives a real textProgressBar with two concurrent tasks under seeded schedules on the fake clock: a stepper (1-3 files; names of every width class: ASCII, CJK, emoji, combining marks, control characters, RTL, empty, 300 columns long; sizes 0, small, GiB range, 2^62, negative; step sequences with repeats, regressions, overshoot and 2^62; clock gaps 0, 1 ms, 199/200/201 ms, 3 s, 5 h) and a resizer/pauser (setTerminalColumns to 1-500, setPause on/off); initial widths 1-500, optional tmux pane width, optional tmux %output framing, optional colour pair; oracle on every write of the bar: display width (control sequences removed, tmux framing undone, runewidth's cluster-aware measure) <= largest width in force since the previous line, for widths >= 5; every percentage within 0..100 and non-decreasing within a file; a panic anywhere crashes the worker and is attributed to the run; non-trivial = at least one line measured; distinct = distinct (width class + modes, schedule-trace hash, tape hash)"})
	reg(&propDef{id: "C04", level: "exploration", crashIsViol: true,
		batches: []batch{{name: "builtin", params: map[string]string{"mode": "builtin"}, quick: 1500, thorough: 60000},
			{name: "custom", params: map[string]string{"mode": "custom"}, quick: 1500, thorough: 60000}},
		rule: "each evaluation is one simulated binary-mode transfer (-b, -b -e; protocols 1-4; buffer sizes 1K-1M; compression on/off/auto; bandwidth shaping so that chunk boundaries move; any segmentation incl. between leader and code) of content rich in protected bytes and leader bytes; batch builtin uses the real trz/tsz with their two tables, batch custom an in-package server running the real handshake/config/receive code with a tape-generated well-formed table (2-32 entries); in 20% of runs one escape pair on the wire is replaced by an undefined one; oracles: files identical after success (both directions), every byte the uploading client wrote between ACT and EXIT is outside the protected set announced in the CFG and every leader is followed by a defined code, an undefined pair ends the transfer with an error on both sides, with protocol <= 2 the binary payload on the wire, escapes undone, equals the file(s) (no compression in those versions); non-trivial = binary mode negotiated and oracles evaluated; distinct = distinct (mode + configuration, schedule-trace hash, tape hash)"})
	reg(&propDef{id: "C05", level: "exploration", crashIsViol: true,
		batches: []batch{{name: "transparency", quick: 2000, thorough: 80000}},
		rule:    "each evaluation is one real filter (option sets drag x tracelog x zmodem x OSC52) after a history of 0-3 real transfers (ended by success, user stop through the prompt, or SIGINT at the server), fed 3-14 probe chunks in both directions: random binary, VT100 sequences, truncated/corrupted trigger look-alikes, zmodem-like and OSC52-like fragments (including vetoed zmodem headers and genuine OSC52), scroll-back of finished transfers, control keys, path-like input naming files that do not exist, existing paths not in the dragged-path shape, bracketed paste; any segmentation and coalescing; oracle: bytes at the terminal == bytes the shell wrote and bytes at the server side == bytes typed, exactly, and no transfer starts; non-trivial = probe bytes compared; distinct = distinct (options + history + probe kinds, schedule-trace hash, tape hash)"})
	reg(&propDef{id: "C06", level: "exploration", crashIsViol: true,
		batches: []batch{{name: "triggers", quick: 1500, thorough: 60000},
			{name: "relaymode", params: map[string]string{"relaymode": "1"}, quick: 1500, thorough: 60000},
			{name: "relaycc", params: map[string]string{"relaycc": "1"}, quick: 300, thorough: 8000},
			{name: "slowwrite", params: map[string]string{"slowwrite": "1"}, quick: 300, thorough: 8000}},
		rule:    "each evaluation feeds one real filter (with or without a tunnel connector) a sequence of 3-12 chunks: genuine triggers from a grammar (modes S/R/D, versions 0.0.0-10.200.3000, ids absent/short/13 digits with suffix 00/10/20/22/15 digits, port absent/present, arbitrary prefix bytes in the same read), truncated or one-byte-corrupted triggers, redraws repeating a deduplicated id seen among the last 40, scroll-back transcripts; a scripted server refuses every ACT; oracles: exactly one ACT (or, for an upload trigger with nothing to upload, one fail line) per genuine fresh trigger and none otherwise, ACT protocol 2 for server versions 1.1.0-1.1.3, Windows framing iff the id says so, connector called with the advertised port, negatives shown unmodified, and what the filter shows locally for a positive starts nothing in a second real filter; non-trivial = all items processed; distinct = distinct (connector + item kinds, schedule-trace hash, tape hash)"})
	reg(&propDef{id: "C07", level: "exploration", crashIsViol: true,
		batches: []batch{{name: "collisions", quick: 1200, thorough: 40000}},
		rule:    "each evaluation is one simulated transfer without -y into an adversarially pre-populated destination (colliding files/dirs, name.N series with gaps, names at the length limit, all 1001 candidate names taken, repeated transfer of the same sources); non-trivial = the receive completed (or failed as it must) and the before/after snapshot (inode, size, hash, mtime) was compared; distinct = distinct (prior-state class + configuration, schedule-trace hash)"})
	reg(&propDef{id: "C08", level: "exploration", crashIsViol: true,
		batches: []batch{{name: "smallblocks", quick: 1200, thorough: 40000}, {name: "trueblocks", params: map[string]string{"big": "1"}, quick: 6, thorough: 120, chunk: 1}},
		rule:    "each evaluation is one simulated -y transfer over pre-existing destination content related to the source by (relative length x first differing offset incl. on/just before/just after comparison-block boundaries); the block size is a per-run knob in batch smallblocks and the shipped 10 MiB in batch trueblocks; non-trivial = both sides reported success and destination bytes were compared with the source and the announced remaining size with the longest common prefix; distinct = distinct (relation class + configuration, schedule-trace hash)"})
	reg(&propDef{id: "C13", level: "exploration", crashIsViol: true,
		batches: []batch{{name: "relay", quick: 4000, thorough: 200000},
			{name: "backpressure", params: map[string]string{"backpressure": "1"}, quick: 800, thorough: 20000}},
		rule:    "each evaluation is one real relay between a scripted client and a scripted server running 1-3 handshakes (confirm, cancel, malformed ACT, malformed CFG; ended by EXIT, fail from either side, or Ctrl-C) with arbitrary bytes before, after and in the same chunk as the trigger/ACT/CFG lines, typed-ahead junk, a CFG already in flight, tape-chosen think times, segmentation and coalescing, under random / PCT / run-to-block schedules with a scheduling point in front of every atomic, lock and channel operation of relay.go and buffer.go; oracle = reference model of both output streams (identity except the rewritten trigger, the decoded-and-compared ACT/CFG lines, consumed malformed lines and relay-made FAIL lines); non-trivial = all scripted bytes were written and both streams compared; distinct = distinct (outcome sequence + segmentation, schedule-trace hash, tape hash)"})
	reg(&propDef{id: "C14", level: "exploration", crashIsViol: false,
		batches: []batch{{name: "relays", quick: 1200, thorough: 60000}, {name: "overtake", params: map[string]string{"overtake": "1"}, quick: 800, thorough: 20000}},
		rule:    "each evaluation is a sequence of two real transfers through one or two real relays (each inside or outside tmux, normal or control mode) with a generated client capability set (protocol 1-9, binary, directory support rewritten into the ACT before the first relay) and server option set; the first transfer ends by exit, user stop through the prompt, a server-side disk error, SIGINT at the server or a refused ACT; oracles: decoded ACT after the last relay (binary off without tunnel, protocol <= 4 and <= offered, other fields preserved), decoded CFG at the client (server settings preserved, tmux junk flag / pane width added), files as in a direct transfer, every relay back in standby, transparency probe through the relays, and the second transfer succeeds with identical files; non-trivial = all of that ran; distinct = distinct (configuration + capabilities + ending, schedule-trace hash, tape hash)"})
	reg(&propDef{id: "C15", level: "exploration", crashIsViol: true,
		batches: []batch{{name: "component", params: map[string]string{"mode": "component"}, quick: 1500, thorough: 40000},
			{name: "system", params: map[string]string{"mode": "system"}, quick: 500, thorough: 15000},
			{name: "manyentries", params: map[string]string{"mode": "system", "many": "1"}, quick: 16, thorough: 200, chunk: 1}},
		nofile: 0,
		rule:   "component batch: real archive reader -> real archive writer with independent tape-chosen read sizes and write segmentations (all single cut positions for streams <= 200 bytes), optionally with a source file shrunk or grown between scan and read; system/manyentries batches: a directory sent as one archive stream between the real client and the real trz/tsz (150-300 entries in manyentries) with open descriptors sampled at every quiescent point; non-trivial = trees compared (or the shrink error observed); distinct = distinct (scenario class, schedule-trace hash)"})
}

// ---------------------------------------------------------------------------------------------
// known findings

type finding struct {
	Property string `json:"property"`
	Sig      string `json:"sig"`
	What     string `json:"what"`
}

type findingsFile struct {
	Known []finding `json:"known"`
	Fixed []struct {
		Property string `json:"property"`
		Commit   string `json:"commit"`
		What     string `json:"what"`
	} `json:"fixed"`
}

func loadFindings() *findingsFile {
	var f findingsFile
	b, err := os.ReadFile(filepath.Join(verifDir, "known_findings.json"))
	if err != nil {
		return &f
	}
	if err := json.Unmarshal(b, &f); err != nil {
		die(2, "known_findings.json: %v", err)
	}
	return &f
}

func (f *findingsFile) match(prop, sig string) *finding {
	for i := range f.Known {
		k := &f.Known[i]
		if k.Property == prop && k.Sig != "" && (k.Sig == sig || (strings.HasSuffix(k.Sig, "*") && strings.HasPrefix(sig, strings.TrimSuffix(k.Sig, "*")))) {
			return k
		}
	}
	return nil
}

// ---------------------------------------------------------------------------------------------
// minimisation (on the tape: truncate, zero blocks, lower values)

type minimiser struct {
	p      *pool
	job    *Job
	kind   string
	sig    string
	isCrash bool
	budget int
	used   int
	nextID int
	deadline time.Time
}

func (m *minimiser) fails(tapes [][]uint32) []bool {
	var jobs []*Job
	for _, t := range tapes {
		m.nextID++
		j := *m.job
		j.ID = 1000000 + m.nextID
		j.Tape = t
		j.Replay = true
		j.Trace = false
		jobs = append(jobs, &j)
	}
	m.used += len(jobs)
	old := m.p.chunk
	m.p.chunk = 1
	res := m.p.runAll(jobs)
	m.p.chunk = old
	out := make([]bool, len(tapes))
	for _, r := range res {
		for i, j := range jobs {
			if j.ID == r.ID {
				if m.isCrash {
					out[i] = r.Class == "crash" && r.Sig == m.sig
				} else {
					out[i] = r.Class == "violation" && r.Kind == m.kind && r.Sig == m.sig
				}
			}
		}
	}
	return out
}

func trimZeros(t []uint32) []uint32 {
	n := len(t)
	for n > 0 && t[n-1] == 0 {
		n--
	}
	return t[:n]
}

func (m *minimiser) run(tape []uint32) []uint32 {
	cur := trimZeros(append([]uint32(nil), tape...))
	ok := func() bool { return m.used < m.budget && time.Now().Before(m.deadline) }
	// 1. truncate the tail (draws past the end are 0)
	for ok() && len(cur) > 0 {
		var cands [][]uint32
		for _, f := range []int{8, 4, 2} {
			n := len(cur) - len(cur)/f
			if n < len(cur) {
				cands = append(cands, trimZeros(append([]uint32(nil), cur[:n]...)))
			}
		}
		cands = append(cands, trimZeros(append([]uint32(nil), cur[:len(cur)/2]...)), []uint32{})
		res := m.fails(cands)
		best := -1
		for i, r := range res {
			if r && (best < 0 || len(cands[i]) < len(cands[best])) {
				best = i
			}
		}
		if best < 0 || len(cands[best]) >= len(cur) {
			break
		}
		cur = cands[best]
	}
	// 2. zero blocks, coarse to fine
	for bs := len(cur) / 2; bs >= 1 && ok(); bs /= 2 {
		for start := 0; start < len(cur) && ok(); {
			var cands [][]uint32
			var starts []int
			for k := 0; k < m.p.workers && start < len(cur); k++ {
				end := start + bs
				if end > len(cur) {
					end = len(cur)
				}
				nz := false
				for _, v := range cur[start:end] {
					if v != 0 {
						nz = true
					}
				}
				if nz {
					c := append([]uint32(nil), cur...)
					for i := start; i < end; i++ {
						c[i] = 0
					}
					cands = append(cands, c)
					starts = append(starts, start)
				}
				start = end
			}
			if len(cands) == 0 {
				continue
			}
			res := m.fails(cands)
			// apply the first success (others were computed against the old tape)
			for i, r := range res {
				if r {
					cur = cands[i]
					_ = starts
					break
				}
			}
		}
		cur = trimZeros(cur)
	}
	return trimZeros(cur)
}

// ---------------------------------------------------------------------------------------------
// evidence

type evidence struct {
	PropertyID  string         `json:"property_id"`
	Tier        string         `json:"tier"`
	Seed        int64          `json:"seed"`
	Level       string         `json:"level"`
	Coverage    map[string]any `json:"coverage"`
	Assumptions []string       `json:"assumptions"`
	WallS       float64        `json:"wall_s"`
	Violations  int            `json:"violations"`
}

func writeJSON(path string, v any) {
	b, err := json.MarshalIndent(v, "", " ")
	if err != nil {
		die(2, "marshal %s: %v", path, err)
	}
	os.MkdirAll(filepath.Dir(path), 0755)
	if err := os.WriteFile(path, append(b, '\n'), 0644); err != nil {
		die(2, "write %s: %v", path, err)
	}
}

func sampleOf(r *Result) map[string]any {
	s := map[string]any{"idx": r.Idx, "batch": r.Batch, "class": r.Class, "steps": r.Steps, "sim_ms": r.SimMs, "trace_hash": r.TraceHash,
		"scenario": r.Scenario, "tape_len": r.TapeLen}
	if len(r.Faults) > 0 {
		s["faults"] = r.Faults
	}
	if r.Msg != "" {
		s["msg"] = tailHead(r.Msg, 400)
	}
	return s
}

func tailHead(s string, n int) string {
	if len(s) > n {
		return s[:n] + "..."
	}
	return s
}

// ---------------------------------------------------------------------------------------------

func main() {
	exe, _ := os.Executable()
	verifDir = filepath.Dir(filepath.Dir(exe))
	if v := os.Getenv("VERIF_DIR"); v != "" {
		verifDir = v
	}
	if v := os.Getenv("VERIF_REPO"); v != "" {
		repoDir = v
	}
	if len(os.Args) < 2 {
		die(2, "usage: check <ID>|setup|selftest-determinism [flags]")
	}
	cmdName := os.Args[1]
	fs := flag.NewFlagSet("check", flag.ExitOnError)
	tier := fs.String("tier", "quick", "quick|thorough")
	seed := fs.Int64("seed", 1, "base seed")
	runs := fs.Int("runs", 0, "override number of runs per batch")
	workers := fs.Int("workers", 0, "worker processes")
	replay := fs.String("replay", "", "replay file")
	onlyBatch := fs.String("batch", "", "run only this batch")
	noMin := fs.Bool("no-minimise", false, "skip minimisation")
	dump := fs.String("dump", "", "write all run results (JSONL) to this file")
	fs.Parse(os.Args[2:])
	if v := os.Getenv("VERIF_TIER"); v != "" {
		*tier = v
	}
	if v := os.Getenv("VERIF_SEED"); v != "" {
		if n, err := strconv.ParseInt(v, 10, 64); err == nil {
			*seed = n
		}
	}
	if *workers <= 0 {
		*workers = runtime.NumCPU()
		if *workers > 16 {
			*workers = 16
		}
	}
	if *tier != "quick" && *tier != "thorough" {
		die(2, "bad tier %q", *tier)
	}
	start := time.Now()

	if cmdName == "setup" {
		bin := buildSim()
		fmt.Println("setup: simulation binary ready:", bin)
		return
	}

	bin := buildSim()
	scratch, err := os.MkdirTemp("", "verif-run-")
	if err != nil {
		die(2, "mktemp: %v", err)
	}
	defer os.RemoveAll(scratch)
	pl := &pool{bin: bin, workers: *workers, chunk: 25, scratch: scratch, memKB: 8 << 20, jobWall: 90 * time.Second}

	if cmdName == "selftest-determinism" {
		selftestDeterminism(pl, *seed, *runs)
		return
	}

	pd := props[cmdName]
	if pd == nil {
		die(2, "unknown property %q", cmdName)
	}
	if pd.memKB > 0 {
		pl.memKB = pd.memKB
	}
	if pd.nofile > 0 {
		pl.nofile = pd.nofile
	}
	if pd.jobWall > 0 {
		pl.jobWall = pd.jobWall
	}
	findings := loadFindings()

	if *replay != "" {
		os.Exit(doReplay(pl, pd, *replay, findings))
	}

	// generate jobs
	var jobs []*Job
	id := 0
	batchOf := map[int]string{}
	chunkOf := map[string]int{}
	enumBaseRuns, enumPlaces := 0, 0
	for _, b := range pd.batches {
		if *onlyBatch != "" && b.name != *onlyBatch {
			continue
		}
		n := b.quick
		if *tier == "thorough" {
			n = b.thorough
		}
		if *runs > 0 {
			n = *runs
		}
		if b.enumKinds > 0 {
			bases := b.quick
			if *tier == "thorough" {
				bases = b.enumBases
			}
			if *runs > 0 {
				bases = *runs
			}
			var phase1 []*Job
			for i := 0; i < bases; i++ {
				params := map[string]string{"batch": b.name, "enum_k": "-1"}
				for k, v := range b.params {
					params[k] = v
				}
				phase1 = append(phase1, &Job{ID: 5000000 + i, Prop: pd.id, Seed: uint64(*seed), Idx: i, Tier: *tier, Params: params})
			}
			for _, r := range pl.runAll(phase1) {
				places := 0
				if v, ok := r.Scenario["enum_places"].(float64); ok {
					places = int(v)
				}
				enumBaseRuns++
				if b.enumDense > 0 {
					lens, _ := r.Scenario["enum_lens"].([]any)
					for k := 0; k < places && k < len(lens); k++ {
						n, _ := lens[k].(float64)
						if int(n) > b.enumDense || int(n) < b.enumDenseMin {
							continue
						}
						for abs := 0; abs < int(n); abs++ {
							for bit := 0; bit < 8; bit++ {
								params := map[string]string{"batch": b.name, "enum_k": fmt.Sprint(k), "enum_abs": fmt.Sprint(abs), "enum_bit": fmt.Sprint(bit)}
								for kk, v := range b.params {
									params[kk] = v
								}
								jobs = append(jobs, &Job{ID: id, Prop: pd.id, Seed: uint64(*seed), Idx: r.Idx, Tier: *tier, Params: params})
								batchOf[id] = b.name
								id++
								enumPlaces++
							}
						}
					}
					continue
				}
				for k := 0; k < places; k++ {
					for kind := 0; kind < b.enumKinds; kind++ {
						for pos := 0; pos < b.enumPos; pos++ {
							params := map[string]string{"batch": b.name, "enum_k": fmt.Sprint(k), "enum_kind": fmt.Sprint(kind), "enum_pos": fmt.Sprint(pos)}
							for kk, v := range b.params {
								params[kk] = v
							}
							jobs = append(jobs, &Job{ID: id, Prop: pd.id, Seed: uint64(*seed), Idx: r.Idx, Tier: *tier, Params: params})
							batchOf[id] = b.name
							id++
							enumPlaces++
						}
					}
				}
			}
			continue
		}
		for i := 0; i < n; i++ {
			params := map[string]string{"batch": b.name}
			for k, v := range b.params {
				params[k] = v
			}
			jobs = append(jobs, &Job{ID: id, Prop: pd.id, Seed: uint64(*seed), Idx: i, Tier: *tier, Params: params})
			batchOf[id] = b.name
			id++
		}
		if b.chunk > 0 {
			chunkOf[b.name] = b.chunk
		}
	}
	if len(jobs) == 0 {
		die(2, "no jobs")
	}
	var results []*Result
	{
		// batches with their own chunk size (e.g. one job per process) run separately
		groups := map[int][]*Job{}
		for _, j := range jobs {
			c := chunkOf[batchOf[j.ID]]
			groups[c] = append(groups[c], j)
		}
		def := pl.chunk
		for c, js := range groups {
			if c > 0 {
				pl.chunk = c
			} else {
				pl.chunk = def
			}
			results = append(results, pl.runAll(js)...)
		}
		pl.chunk = def
		sort.Slice(results, func(i, j int) bool { return results[i].ID < results[j].ID })
	}
	for _, r := range results {
		r.Batch = batchOf[r.ID]
	}

	if *dump != "" {
		var b bytes.Buffer
		for _, r := range results {
			j, _ := json.Marshal(r)
			b.Write(j)
			b.WriteByte('\n')
		}
		os.WriteFile(*dump, b.Bytes(), 0644)
	}

	// determinism spot check: re-run 2 % (at least 8) of the completed runs
	var recheck []*Job
	want := map[int]*Result{}
	step := len(results) / 50
	if step < 1 {
		step = 1
	}
	for i := 0; i < len(results); i += step {
		r := results[i]
		if r.job == nil || (r.Class != "ok" && r.Class != "violation") {
			continue
		}
		j := *r.job
		j.ID = 2000000 + r.ID
		recheck = append(recheck, &j)
		want[j.ID] = r
		if len(recheck) >= 400 {
			break
		}
	}
	detMismatch := 0
	var detMsg string
	for _, r := range pl.runAll(recheck) {
		w := want[r.ID]
		if w == nil {
			continue
		}
		if r.TraceHash != w.TraceHash || r.Class != w.Class || r.Steps != w.Steps {
			detMismatch++
			detMsg = fmt.Sprintf("job idx=%d: first run class=%s steps=%d trace=%s, second run class=%s steps=%d trace=%s",
				w.Idx, w.Class, w.Steps, w.TraceHash, r.Class, r.Steps, r.TraceHash)
		}
	}

	// classify
	counts := map[string]int{}
	faults := map[string]int{}
	probes := map[string]int{}
	distinct := map[string]bool{}
	classKeys := map[string]bool{}
	switchMax := 0
	var simMs, steps int64
	var violations, crashes, stuck, errors []*Result
	var samples []any
	for _, r := range results {
		counts[r.Class]++
		simMs += r.SimMs
		steps += int64(r.Steps)
		for k, v := range r.Faults {
			faults[k] += v
		}
		for k, v := range r.Probes {
			probes[k] += v
		}
		if r.Switches > switchMax {
			switchMax = r.Switches
		}
		if r.Nontrivial {
			distinct[r.ClassKey+"|"+r.TraceHash+"|"+r.TapeHash] = true
			classKeys[r.ClassKey] = true
		}
		switch r.Class {
		case "violation":
			violations = append(violations, r)
		case "crash":
			crashes = append(crashes, r)
		case "stuck":
			stuck = append(stuck, r)
		case "error":
			errors = append(errors, r)
		}
	}
	for _, r := range results {
		if r.Nontrivial && len(samples) < 3 {
			samples = append(samples, sampleOf(r))
		}
	}
	if len(samples) == 0 && len(results) > 0 {
		samples = append(samples, sampleOf(results[0]))
	}

	// violations: group by signature, minimise one representative each, write replay files
	type group struct {
		sig   string
		first *Result
		n     int
	}
	groups := map[string]*group{}
	var order []string
	addViol := func(r *Result) {
		key := r.Kind + "|" + r.Sig
		g := groups[key]
		if g == nil {
			g = &group{sig: r.Sig, first: r}
			groups[key] = g
			order = append(order, key)
		}
		g.n++
	}
	for _, r := range violations {
		addViol(r)
	}
	if pd.crashIsViol {
		for _, r := range crashes {
			addViol(r)
		}
	} else {
		for _, r := range crashes {
			fmt.Fprintf(os.Stderr, "note: run idx=%d batch=%s ended in a crash of the worker (crashes are decided by C12, not by this property): %s: %s\n", r.Idx, r.Batch, r.Sig, r.Msg)
		}
	}
	if (pd.crashIsViol || pd.stuckIsViol) && len(stuck) > 0 {
		// the watchdog measures wall-clock time, which a loaded machine stretches: a run that tripped it is run
		// again on its own, and only if it makes no progress that second time either does it count
		var confirmed []*Result
		for _, r := range stuck {
			if r.job == nil {
				confirmed = append(confirmed, r)
				continue
			}
			again := pl.runChunk([]*Job{r.job})
			if len(again) == 1 && again[0].Class != "stuck" {
				fmt.Fprintf(os.Stderr, "note: run idx=%d tripped the wall-clock watchdog under load and completed (%s) when run again on its own\n", r.Idx, again[0].Class)
				counts["stuck"]--
				counts[again[0].Class]++
				switch again[0].Class {
				case "violation":
					violations = append(violations, again[0])
					addViol(again[0])
				case "crash":
					crashes = append(crashes, again[0])
					if pd.crashIsViol {
						addViol(again[0])
					}
				case "error":
					errors = append(errors, again[0])
				}
				continue
			}
			confirmed = append(confirmed, r)
		}
		stuck = confirmed
	}
	if pd.crashIsViol || pd.stuckIsViol {
		// a run that makes no progress for the whole wall-clock watchdog (endless loop, allocation
		// storm), twice, the second time with the machine to itself, is a failure of the code under test for
		// these properties, not of the framework
		for _, r := range stuck {
			r.Kind = "stuck"
			r.Sig = "stuck:no-progress-for-" + pl.jobWall.String()
			addViol(r)
		}
		stuck = nil
	}
	exit := 0
	var vioLines []string
	knownPrinted := map[string]bool{}
	nViol := 0
	var vioSamples []any
	for _, key := range order {
		g := groups[key]
		r := g.first
		if k := findings.match(pd.id, r.Sig); k != nil {
			if !knownPrinted[k.Sig] {
				knownPrinted[k.Sig] = true
				fmt.Printf("KNOWN-FINDING: property=%s %s (sig=%s, %d runs, e.g. idx=%d)\n", pd.id, k.What, k.Sig, g.n, r.Idx)
			}
			continue
		}
		nViol += g.n
		// obtain the tape of the failing run (crashes have none recorded: re-run with the seed)
		rp := makeReplay(pl, pd, r, *tier, !*noMin)
		vioLines = append(vioLines, fmt.Sprintf("VIOLATION property=%s replay=%s", pd.id, rp))
		vioSamples = append(vioSamples, map[string]any{"kind": r.Kind, "sig": r.Sig, "runs": g.n, "msg": tailHead(r.Msg, 500), "replay": rp})
		exit = 1
	}

	// framework trouble
	trouble := ""
	if len(errors) > 0 {
		trouble = fmt.Sprintf("%d runs ended in a harness error, e.g. %s", len(errors), tailHead(errors[0].Msg, 1500))
	} else if len(stuck) > 0 {
		trouble = fmt.Sprintf("%d runs made no progress within the wall-clock watchdog, e.g. idx=%d", len(stuck), stuck[0].Idx)
	} else if detMismatch*20 > len(recheck) && detMismatch > 1 {
		trouble = fmt.Sprintf("determinism self-check: %d of %d re-executed runs diverged (%s)", detMismatch, len(recheck), detMsg)
	} else if counts["inconclusive"]*100 > len(results) {
		trouble = fmt.Sprintf("%d of %d runs were inconclusive (step cap)", counts["inconclusive"], len(results))
	}

	wall := time.Since(start).Seconds()
	cov := map[string]any{
		"evaluations":         len(results),
		"distinct_nontrivial": len(distinct),
		"rule":                pd.rule,
		"samples":             samples,
		"runs_by_class":       counts,
		"scenario_classes":    len(classKeys),
		"simulated_seconds":   float64(simMs) / 1000,
		"scheduler_steps":     steps,
		"runs_per_hour":       int(float64(len(results)) / wall * 3600),
		"seeds":               []int64{*seed},
		"fault_kinds_fired":   faults,
		"probes_hit":          probes,
		"max_distinct_context_switch_pairs_in_one_run": switchMax,
		"determinism_reruns":     len(recheck),
		"determinism_mismatches": detMismatch,
		"crashes":                len(crashes),
		"worker_processes":       pl.procsRun,
		"enumeration_base_scenarios": enumBaseRuns,
		"enumerated_fault_placements": enumPlaces,
		"real_components":        "transfer, pipeline, buffer, escape, append, archive, comm, progress, filter (incl. promptui prompt), relay, trz/tsz mains, zmodem bridge; zstd/base64/zlib/md5/json libraries; real files in a per-run temp dir",
		"stub_components":        "pty/spawn, raw-mode term calls, zenity, clipboard, tmux/stty/lrzsz children (scripted), TCP (in-memory), OS signals (simulator-delivered), fork re-exec",
	}
	if len(vioSamples) > 0 {
		cov["violation_groups"] = vioSamples
	}
	if !pd.crashIsViol && len(crashes) > 0 {
		cov["crashes_note"] = "runs aborted by a crash are decided by C12, not by this property"
	}
	ev := &evidence{PropertyID: pd.id, Tier: *tier, Seed: *seed, Level: pd.level, Coverage: cov,
		Assumptions: append(append([]string{}, commonAssumptions...), pd.assumptions...), WallS: wall, Violations: nViol}
	if trouble == "" || exit == 1 {
		writeJSON(filepath.Join(verifDir, "evidence", pd.id+".json"), ev)
	}
	for _, l := range vioLines {
		fmt.Println(l)
	}
	fmt.Printf("check %s tier=%s seed=%d: %d runs (%v) distinct_nontrivial=%d violations=%d crashes=%d wall=%.1fs\n",
		pd.id, *tier, *seed, len(results), counts, len(distinct), nViol, len(crashes), wall)
	if exit == 1 {
		os.Exit(1)
	}
	if trouble != "" {
		die(2, "framework trouble: %s", trouble)
	}
}

// makeReplay re-runs the failing job with tracing to capture its tape, minimises it, writes the
// replay file and returns its path.
func makeReplay(pl *pool, pd *propDef, r *Result, tier string, minimise bool) string {
	base := *r.job
	isCrash := r.Class == "crash"
	tape := r.Tape
	if len(tape) == 0 && isCrash {
		// a crashed worker leaves no result record: run the job once more with every draw written
		// through to a file, and read the tape back from there
		dump := filepath.Join(pl.scratch, fmt.Sprintf("tapedump-%d", r.ID))
		j := base
		j.ID = 4000000 + r.ID
		j.Params = map[string]string{}
		for k, v := range base.Params {
			j.Params[k] = v
		}
		j.Params["tapedump"] = dump
		old := pl.chunk
		pl.chunk = 1
		pl.runAll([]*Job{&j})
		pl.chunk = old
		if b, err := os.ReadFile(dump); err == nil {
			for _, l := range strings.Fields(string(b)) {
				if v, err := strconv.ParseUint(l, 10, 32); err == nil {
					tape = append(tape, uint32(v))
				}
			}
		}
		os.Remove(dump)
	}
	var minTape []uint32
	minimised := false
	reproduced := "not re-executed"
	if minimise && len(tape) > 0 {
		m := &minimiser{p: pl, job: &base, kind: r.Kind, sig: r.Sig, isCrash: isCrash, budget: 400, deadline: time.Now().Add(150 * time.Second)}
		// confirm the recorded tape reproduces before shrinking
		if m.fails([][]uint32{tape})[0] {
			minTape = m.run(tape)
			minimised = true
			reproduced = "yes"
		} else {
			reproduced = "NO: re-executing the recorded tape did not show the violation again (see the determinism self-test)"
			fmt.Printf("NOTE: property=%s the violation %s was seen once and did not reproduce from its recorded tape\n", pd.id, r.Sig)
		}
	}
	rep := map[string]any{
		"property": pd.id, "tier": tier, "seed": base.Seed, "idx": base.Idx, "params": base.Params,
		"kind": r.Kind, "sig": r.Sig, "class": r.Class, "msg": r.Msg, "detail": r.Detail,
		"scenario": r.Scenario, "toolchain": "go1.26.8", "gomaxprocs": gomaxprocs(), "tree_hash": treeHash(),
	}
	rep["reproduced_from_tape"] = reproduced
	if len(tape) > 0 {
		rep["tape"] = tape
		rep["tape_len"] = len(tape)
	}
	if minimised {
		rep["min_tape"] = minTape
		rep["min_tape_len"] = len(minTape)
		nz := 0
		for _, v := range minTape {
			if v != 0 {
				nz++
			}
		}
		rep["min_tape_nonzero_draws"] = nz
		// trace of the minimised run (schedule + labelled draws)
		j := base
		j.ID = 3000000
		j.Tape = minTape
		j.Replay = true
		j.Trace = true
		old := pl.chunk
		pl.chunk = 1
		for _, tr := range pl.runAll([]*Job{&j}) {
			if len(tr.Trace) > 300 {
				tr.Trace = append(tr.Trace[:150], tr.Trace[len(tr.Trace)-150:]...)
			}
			rep["min_schedule"] = tr.Trace
			rep["min_draws"] = tr.Detail
			rep["min_msg"] = tr.Msg
		}
		pl.chunk = old
	}
	h := sha256.Sum256([]byte(fmt.Sprintf("%s|%s|%d|%d|%v", pd.id, r.Sig, base.Seed, base.Idx, base.Params)))
	path := filepath.Join(verifDir, "replays", fmt.Sprintf("%s-%s.json", pd.id, hex.EncodeToString(h[:6])))
	writeJSON(path, rep)
	return path
}

func doReplay(pl *pool, pd *propDef, path string, findings *findingsFile) int {
	b, err := os.ReadFile(path)
	if err != nil {
		die(2, "replay: %v", err)
	}
	var rep struct {
		Property string            `json:"property"`
		Seed     uint64            `json:"seed"`
		Idx      int               `json:"idx"`
		Params   map[string]string `json:"params"`
		Kind     string            `json:"kind"`
		Sig      string            `json:"sig"`
		Class    string            `json:"class"`
		Tape     []uint32          `json:"tape"`
		MinTape  []uint32          `json:"min_tape"`
		HasMin   *int              `json:"min_tape_len"`
	}
	if err := json.Unmarshal(b, &rep); err != nil {
		die(2, "replay: %v", err)
	}
	j := &Job{ID: 0, Prop: pd.id, Seed: rep.Seed, Idx: rep.Idx, Params: rep.Params, Trace: true}
	if rep.HasMin != nil {
		j.Tape, j.Replay = rep.MinTape, true
	} else if len(rep.Tape) > 0 {
		j.Tape, j.Replay = rep.Tape, true
	}
	pl.chunk = 1
	res := pl.runAll([]*Job{j})
	if len(res) != 1 {
		die(2, "replay produced %d results", len(res))
	}
	r := res[0]
	fmt.Printf("replay %s: class=%s kind=%s sig=%s steps=%d trace=%s\n%s\n", path, r.Class, r.Kind, r.Sig, r.Steps, r.TraceHash, r.Msg)
	for _, d := range r.Detail {
		fmt.Println("  ", d)
	}
	if len(r.Scenario) > 0 {
		if b, err := json.Marshal(r.Scenario); err == nil {
			fmt.Printf("scenario: %s\n", b)
		}
	}
	if r.Class == "violation" || (r.Class == "crash" && (pd.crashIsViol || rep.Class == "crash")) {
		if k := findings.match(pd.id, r.Sig); k != nil {
			fmt.Printf("KNOWN-FINDING: property=%s %s\n", pd.id, k.What)
			return 0
		}
		fmt.Printf("VIOLATION property=%s replay=%s\n", pd.id, path)
		if r.Kind != rep.Kind || r.Sig != rep.Sig {
			fmt.Printf("note: recorded violation was kind=%s sig=%s\n", rep.Kind, rep.Sig)
		}
		return 1
	}
	if r.Class == "error" || r.Class == "stuck" {
		return 2
	}
	fmt.Println("REPLAY-CLEAN: the recorded schedule and faults no longer violate the property on this tree")
	return 0
}

// selftestDeterminism runs many tapes several times each under different load and compares the
// full outcome signature (class, steps, schedule-trace hash, simulated time).
func selftestDeterminism(pl *pool, seed int64, runs int) {
	if runs <= 0 {
		runs = 200
	}
	var ids []string
	for id := range props {
		ids = append(ids, id)
	}
	sort.Strings(ids)
	if only := os.Getenv("VERIF_SELFTEST_PROPS"); only != "" {
		ids = strings.Split(only, ",")
	}
	type key struct {
		prop  string
		batch string
		idx   int
	}
	sigs := map[key]map[string]int{}
	traces := map[key]map[string][]string{}
	total := 0
	for round, workers := range []int{16, 4, 1, 16} {
		var jobs []*Job
		id := 0
		idBatch := map[int]string{}
		for _, p := range ids {
			for bi, b := range props[p].batches {
				n := runs / len(ids)
				if bi > 0 {
					n /= 3 // every batch takes part (enumerated ones with their counting run), the first one most
				}
				if n < 4 {
					n = 4
				}
				for i := 0; i < n; i++ {
					params := map[string]string{"batch": b.name}
					for k, v := range b.params {
						params[k] = v
					}
					if b.enumKinds > 0 {
						params["enum_k"] = "-1"
					}
					jobs = append(jobs, &Job{ID: id, Prop: p, Seed: uint64(seed), Idx: i, Params: params, Trace: true})
					idBatch[id] = b.name
					id++
				}
			}
		}
		pl.workers = workers
		pl.chunk = 7 + round*5
		for _, r := range pl.runAll(jobs) {
			k := key{r.Prop, idBatch[r.ID], r.Idx}
			if sigs[k] == nil {
				sigs[k] = map[string]int{}
			}
			sg := fmt.Sprintf("%s/%s/%d/%s/%d", r.Class, r.Kind, r.Steps, r.TraceHash, r.SimMs)
			sigs[k][sg]++
			if traces[k] == nil {
				traces[k] = map[string][]string{}
			}
			if traces[k][sg] == nil {
				traces[k][sg] = r.Trace
			}
			total++
		}
	}
	bad := 0
	for k, m := range sigs {
		if len(m) > 1 {
			bad++
			fmt.Printf("DIVERGENCE %s batch=%s idx=%d: %v\n", k.prop, k.batch, k.idx, m)
			var trs [][]string
			for _, t := range traces[k] {
				trs = append(trs, t)
			}
			if len(trs) >= 2 {
				a, b := trs[0], trs[1]
				for i := 0; i < len(a) && i < len(b); i++ {
					if a[i] != b[i] {
						lo := i - 10
						if lo < 0 {
							lo = 0
						}
						for j := lo; j <= i+3 && j < len(a); j++ {
							fmt.Println("   A", a[j])
						}
						for j := lo; j <= i+3 && j < len(b); j++ {
							fmt.Println("   B", b[j])
						}
						break
					}
				}
			}
		}
	}
	fmt.Printf("selftest-determinism: %d executions of %d tapes, %d divergent tapes\n", total, len(sigs), bad)
	if bad > 0 {
		os.Exit(2)
	}
}
