// vrewrite instruments a scratch copy of trzsz-go for deterministic simulation.
//
// usage: vrewrite <srcdir>      (srcdir = scratch copy of /repo; package ./trzsz is rewritten in place)
//
// Passes (see DESIGN.md §2.1):
//
//	P3 select      -> verifsim.Select (tape-ordered polling, then one blocking select)
//	P2 go          -> lineage-carrying spawn
//	P4 mutex       -> scheduler-aware Lock/Unlock
//	P5 os handles  -> process-local stdio/args/env
//	P6 imports     -> os/exec, os/signal, net.Listen substitutes
//	P7 entry hooks -> isWindowsEnvironment, file read/write wrappers, kPrefixHashStep var
//	P1 yields      -> verifsim.Yield before every statement holding a synchronisation operation
//
// Everything keys on syntax and types, not on line numbers, so it keeps working on an edited tree.
// Any construct it cannot handle makes it exit 2 (framework trouble), never a silent skip of a
// construct that matters for determinism.
package main

import (
	"bytes"
	"fmt"
	"go/ast"
	"go/format"
	"go/parser"
	"go/token"
	"go/types"
	"os"
	"path/filepath"
	"strconv"
	"strings"

	"golang.org/x/tools/go/ast/astutil"
	"golang.org/x/tools/go/packages"
)

const simPath = "github.com/trzsz/trzsz-go/internal/verifsim"

type rw struct {
	fset  *token.FileSet
	info  *types.Info
	fname string
	gen   map[ast.Node]bool // generated nodes: no yields in front of them
	used  bool              // verifsim referenced
	stats map[string]int
}

func fatalf(format string, a ...any) {
	fmt.Fprintf(os.Stderr, "vrewrite: "+format+"\n", a...)
	os.Exit(2)
}

func vs(name string) ast.Expr {
	return &ast.SelectorExpr{X: ast.NewIdent("verifsim"), Sel: ast.NewIdent(name)}
}

func strLit(s string) ast.Expr { return &ast.BasicLit{Kind: token.STRING, Value: strconv.Quote(s)} }

func (r *rw) site(pos token.Pos) ast.Expr {
	p := r.fset.Position(pos)
	return strLit(fmt.Sprintf("%s:%d", filepath.Base(p.Filename), p.Line))
}

func (r *rw) yieldStmt(pos token.Pos) ast.Stmt {
	r.used = true
	r.stats["yield"]++
	s := &ast.ExprStmt{X: &ast.CallExpr{Fun: vs("Yield"), Args: []ast.Expr{r.site(pos)}}}
	r.gen[s] = true
	return s
}

// ---------------------------------------------------------------------------------------------
// classification of synchronisation operations (type informed)

func pkgPathOf(obj types.Object) string {
	if obj == nil || obj.Pkg() == nil {
		return ""
	}
	return obj.Pkg().Path()
}

func namedFrom(t types.Type, pkg string) (string, bool) {
	if t == nil {
		return "", false
	}
	if p, ok := t.(*types.Pointer); ok {
		t = p.Elem()
	}
	t = types.Unalias(t)
	if n, ok := t.(*types.Named); ok && n.Obj() != nil && n.Obj().Pkg() != nil && n.Obj().Pkg().Path() == pkg {
		return n.Obj().Name(), true
	}
	return "", false
}

// isMutexCall reports calls m.Lock()/m.Unlock() on a sync.Mutex and returns the receiver expression.
func (r *rw) isMutexCall(call *ast.CallExpr) (recv ast.Expr, method string, ok bool) {
	sel, ok := call.Fun.(*ast.SelectorExpr)
	if !ok {
		return nil, "", false
	}
	s, ok := r.info.Selections[sel]
	if !ok || s.Kind() != types.MethodVal {
		return nil, "", false
	}
	if pkgPathOf(s.Obj()) != "sync" {
		return nil, "", false
	}
	name, ok := namedFrom(s.Recv(), "sync")
	if !ok {
		return nil, "", false
	}
	if name == "Mutex" && (sel.Sel.Name == "Lock" || sel.Sel.Name == "Unlock") {
		return sel.X, sel.Sel.Name, true
	}
	if name == "Mutex" || name == "RWMutex" || name == "Cond" {
		if sel.Sel.Name == "TryLock" || name != "Mutex" {
			fatalf("%s: unsupported sync primitive call %s.%s (extend the rewriter)", r.fset.Position(call.Pos()), name, sel.Sel.Name)
		}
	}
	return nil, "", false
}

func (r *rw) isSyncCall(call *ast.CallExpr) bool {
	switch fun := call.Fun.(type) {
	case *ast.Ident:
		if fun.Name == "close" {
			if _, ok := r.info.Uses[fun].(*types.Builtin); ok {
				return true
			}
		}
	case *ast.SelectorExpr:
		if x, ok := fun.X.(*ast.Ident); ok && x.Name == "verifsim" {
			return false
		}
		if s, ok := r.info.Selections[fun]; ok {
			if s.Kind() == types.MethodVal {
				switch pkgPathOf(s.Obj()) {
				case "sync/atomic", "sync", "context":
					return true
				case "io":
					if n, ok := namedFrom(s.Recv(), "io"); ok && (n == "PipeReader" || n == "PipeWriter") {
						return true
					}
				}
			}
		} else if obj := r.info.Uses[fun.Sel]; obj != nil {
			switch pkgPathOf(obj) {
			case "sync/atomic":
				return true
			case "context":
				return true
			}
		}
	}
	// calling a value whose type is context.CancelFunc / CancelCauseFunc
	if t := r.info.TypeOf(call.Fun); t != nil {
		if _, ok := namedFrom(t, "context"); ok {
			return true
		}
	}
	return false
}

// hasSync reports whether evaluating n (without entering function literals or nested blocks)
// performs a synchronisation operation.
func (r *rw) hasSync(n ast.Node) bool {
	if n == nil {
		return false
	}
	found := false
	ast.Inspect(n, func(x ast.Node) bool {
		if found || x == nil {
			return false
		}
		switch v := x.(type) {
		case *ast.FuncLit:
			return false
		case *ast.BlockStmt:
			if x != n {
				return false
			}
		case *ast.SendStmt, *ast.GoStmt, *ast.SelectStmt:
			found = true
		case *ast.UnaryExpr:
			if v.Op == token.ARROW {
				found = true
			}
		case *ast.CallExpr:
			if r.isSyncCall(v) {
				found = true
			}
		}
		return !found
	})
	return found
}

func (r *rw) isChanRange(s *ast.RangeStmt) bool {
	t := r.info.TypeOf(s.X)
	if t == nil {
		return false
	}
	_, ok := t.Underlying().(*types.Chan)
	return ok
}

func (r *rw) ifChainSync(s *ast.IfStmt) bool {
	for s != nil {
		if (s.Init != nil && r.hasSync(s.Init)) || r.hasSync(s.Cond) {
			return true
		}
		next, _ := s.Else.(*ast.IfStmt)
		s = next
	}
	return false
}

// header reports whether a yield belongs in front of statement s.
func (r *rw) header(s ast.Stmt) bool {
	if r.gen[s] {
		return false
	}
	switch v := s.(type) {
	case *ast.LabeledStmt:
		return r.header(v.Stmt)
	case *ast.ForStmt:
		return r.loopHeaderSync(v)
	case *ast.RangeStmt:
		return r.isChanRange(v) || r.hasSync(v.X)
	case *ast.IfStmt:
		return r.ifChainSync(v)
	case *ast.SwitchStmt:
		return (v.Init != nil && r.hasSync(v.Init)) || (v.Tag != nil && r.hasSync(v.Tag))
	case *ast.TypeSwitchStmt:
		return (v.Init != nil && r.hasSync(v.Init)) || r.hasSync(v.Assign)
	case *ast.BlockStmt:
		return false
	case *ast.DeferStmt:
		return false // handled separately (yield registered after the defer, so it runs before it)
	case *ast.SelectStmt:
		fatalf("%s: select statement survived pass P3", r.fset.Position(s.Pos()))
	}
	return r.hasSync(s)
}

func (r *rw) loopHeaderSync(v *ast.ForStmt) bool {
	return (v.Init != nil && r.hasSync(v.Init)) || (v.Cond != nil && r.hasSync(v.Cond)) || (v.Post != nil && r.hasSync(v.Post))
}

// ---------------------------------------------------------------------------------------------
// P1

type loopInfo struct {
	endYield bool
	pos      token.Pos
}

func (r *rw) doList(list []ast.Stmt, loop *loopInfo) []ast.Stmt {
	out := make([]ast.Stmt, 0, len(list)+4)
	for _, s := range list {
		if br, ok := s.(*ast.BranchStmt); ok && br.Tok == token.CONTINUE && br.Label == nil && loop != nil && loop.endYield {
			out = append(out, r.yieldStmt(br.Pos()))
		}
		if r.header(s) {
			out = append(out, r.yieldStmt(s.Pos()))
		}
		r.doStmt(s, loop)
		out = append(out, s)
		if d, ok := s.(*ast.DeferStmt); ok && !r.gen[s] {
			if r.isSyncCall(d.Call) {
				r.used = true
				r.stats["defer-yield"]++
				dy := &ast.DeferStmt{Call: &ast.CallExpr{Fun: vs("Yield"), Args: []ast.Expr{r.site(d.Pos())}}}
				r.gen[dy] = true
				out = append(out, dy)
			}
		}
	}
	return out
}

func (r *rw) doStmt(s ast.Stmt, loop *loopInfo) {
	switch v := s.(type) {
	case *ast.BlockStmt:
		v.List = r.doList(v.List, loop)
	case *ast.LabeledStmt:
		r.doStmt(v.Stmt, loop)
	case *ast.IfStmt:
		v.Body.List = r.doList(v.Body.List, loop)
		if v.Else != nil {
			r.doStmt(v.Else, loop)
		}
	case *ast.ForStmt:
		li := &loopInfo{endYield: r.loopHeaderSync(v), pos: v.Pos()}
		v.Body.List = r.doList(v.Body.List, li)
		if li.endYield {
			v.Body.List = append(v.Body.List, r.yieldStmt(v.Pos()))
		}
	case *ast.RangeStmt:
		li := &loopInfo{endYield: r.isChanRange(v), pos: v.Pos()}
		v.Body.List = r.doList(v.Body.List, li)
		if li.endYield {
			v.Body.List = append(v.Body.List, r.yieldStmt(v.Pos()))
		}
	case *ast.SwitchStmt:
		for _, c := range v.Body.List {
			cc := c.(*ast.CaseClause)
			cc.Body = r.doList(cc.Body, loop)
		}
	case *ast.TypeSwitchStmt:
		for _, c := range v.Body.List {
			cc := c.(*ast.CaseClause)
			cc.Body = r.doList(cc.Body, loop)
		}
	}
}

// ---------------------------------------------------------------------------------------------
// P3 select

func (r *rw) rewriteSelect(sel *ast.SelectStmt) ast.Stmt {
	r.used = true
	r.stats["select"]++
	var pre []ast.Stmt
	var caseArgs []ast.Expr
	var clauses []ast.Stmt
	hasDefault := false
	idx := 0
	define := func(name string, val ast.Expr) {
		as := &ast.AssignStmt{Lhs: []ast.Expr{ast.NewIdent(name)}, Tok: token.DEFINE, Rhs: []ast.Expr{val}}
		r.gen[as] = true
		pre = append(pre, as)
	}
	for _, c := range sel.Body.List {
		cc := c.(*ast.CommClause)
		if cc.Comm == nil {
			hasDefault = true
			clauses = append(clauses, &ast.CaseClause{List: nil, Body: cc.Body})
			continue
		}
		cname := fmt.Sprintf("__vc%d", idx)
		var body []ast.Stmt
		switch cm := cc.Comm.(type) {
		case *ast.SendStmt:
			sname := fmt.Sprintf("__vs%d", idx)
			define(cname, cm.Chan)
			define(sname, cm.Value)
			caseArgs = append(caseArgs, &ast.CallExpr{Fun: vs("SendCase"), Args: []ast.Expr{ast.NewIdent(cname), ast.NewIdent(sname)}})
		case *ast.ExprStmt:
			u, ok := ast.Unparen(cm.X).(*ast.UnaryExpr)
			if !ok || u.Op != token.ARROW {
				fatalf("%s: unexpected select comm", r.fset.Position(cm.Pos()))
			}
			define(cname, u.X)
			caseArgs = append(caseArgs, &ast.CallExpr{Fun: vs("RecvCase"), Args: []ast.Expr{ast.NewIdent(cname)}})
		case *ast.AssignStmt:
			if len(cm.Rhs) != 1 {
				fatalf("%s: unexpected select comm", r.fset.Position(cm.Pos()))
			}
			u, ok := ast.Unparen(cm.Rhs[0]).(*ast.UnaryExpr)
			if !ok || u.Op != token.ARROW {
				fatalf("%s: unexpected select comm", r.fset.Position(cm.Pos()))
			}
			define(cname, u.X)
			caseArgs = append(caseArgs, &ast.CallExpr{Fun: vs("RecvCase"), Args: []ast.Expr{ast.NewIdent(cname)}})
			rhs := []ast.Expr{&ast.CallExpr{Fun: vs("As"), Args: []ast.Expr{ast.NewIdent(cname), ast.NewIdent("__vrv")}}}
			if len(cm.Lhs) == 2 {
				rhs = append(rhs, ast.NewIdent("__vok"))
			}
			as := &ast.AssignStmt{Lhs: cm.Lhs, Tok: cm.Tok, Rhs: rhs}
			r.gen[as] = true
			body = append(body, as)
		default:
			fatalf("%s: unexpected select comm %T", r.fset.Position(cc.Pos()), cc.Comm)
		}
		body = append(body, cc.Body...)
		clauses = append(clauses, &ast.CaseClause{List: []ast.Expr{&ast.BasicLit{Kind: token.INT, Value: strconv.Itoa(idx)}}, Body: body})
		idx++
	}
	def := "false"
	if hasDefault {
		def = "true"
	}
	args := append([]ast.Expr{r.site(sel.Pos()), ast.NewIdent(def)}, caseArgs...)
	call := &ast.AssignStmt{
		Lhs: []ast.Expr{ast.NewIdent("__vk"), ast.NewIdent("__vrv"), ast.NewIdent("__vok")},
		Tok: token.DEFINE,
		Rhs: []ast.Expr{&ast.CallExpr{Fun: vs("Select"), Args: args}},
	}
	r.gen[call] = true
	use := &ast.AssignStmt{Lhs: []ast.Expr{ast.NewIdent("_"), ast.NewIdent("_")}, Tok: token.ASSIGN,
		Rhs: []ast.Expr{ast.NewIdent("__vrv"), ast.NewIdent("__vok")}}
	r.gen[use] = true
	if !hasDefault {
		clauses = append(clauses, &ast.CaseClause{List: nil, Body: []ast.Stmt{
			&ast.ExprStmt{X: &ast.CallExpr{Fun: ast.NewIdent("panic"), Args: []ast.Expr{strLit("verifsim: bad select index")}}}}})
	}
	sw := &ast.SwitchStmt{Tag: ast.NewIdent("__vk"), Body: &ast.BlockStmt{List: clauses}}
	blk := &ast.BlockStmt{List: append(append(pre, call, use), sw)}
	return blk
}

// ---------------------------------------------------------------------------------------------
// P2 go statements

func (r *rw) rewriteGo(g *ast.GoStmt) ast.Stmt {
	r.used = true
	r.stats["go"]++
	var pre []ast.Stmt
	define := func(name string, val ast.Expr) ast.Expr {
		as := &ast.AssignStmt{Lhs: []ast.Expr{ast.NewIdent(name)}, Tok: token.DEFINE, Rhs: []ast.Expr{val}}
		r.gen[as] = true
		pre = append(pre, as)
		return ast.NewIdent(name)
	}
	if id, ok := g.Call.Fun.(*ast.Ident); ok {
		if _, ok := r.info.Uses[id].(*types.Builtin); ok {
			fatalf("%s: go statement on builtin not supported", r.fset.Position(g.Pos()))
		}
	}
	tk := define("__vt", &ast.CallExpr{Fun: vs("Spawn"), Args: []ast.Expr{r.site(g.Pos())}})
	fun := g.Call.Fun
	if fl, ok := fun.(*ast.FuncLit); !ok || len(fl.Type.Params.List) > 0 {
		fun = define("__vf", fun)
	}
	var args []ast.Expr
	for i, a := range g.Call.Args {
		tv, ok := r.info.Types[a]
		if ok && (tv.Value != nil || tv.IsNil()) {
			args = append(args, a)
			continue
		}
		if ok {
			if b, isBasic := tv.Type.(*types.Basic); isBasic && b.Info()&types.IsUntyped != 0 {
				args = append(args, a)
				continue
			}
		}
		args = append(args, define(fmt.Sprintf("__va%d", i), a))
	}
	inner := &ast.CallExpr{Fun: fun, Args: args, Ellipsis: g.Call.Ellipsis}
	if g.Call.Ellipsis != token.NoPos {
		inner.Ellipsis = 1
	}
	body := &ast.BlockStmt{List: []ast.Stmt{
		&ast.ExprStmt{X: &ast.CallExpr{Fun: vs("Enter"), Args: []ast.Expr{tk}}},
		&ast.DeferStmt{Call: &ast.CallExpr{Fun: vs("Leave"), Args: []ast.Expr{ast.NewIdent("__vt")}}},
		&ast.ExprStmt{X: inner},
	}}
	for _, s := range body.List {
		r.gen[s] = true
	}
	ng := &ast.GoStmt{Call: &ast.CallExpr{Fun: &ast.FuncLit{Type: &ast.FuncType{Params: &ast.FieldList{}}, Body: body}}}
	r.gen[ng] = true
	y := r.yieldStmt(g.Pos())
	return &ast.BlockStmt{List: append(append([]ast.Stmt{y}, pre...), ng)}
}

// ---------------------------------------------------------------------------------------------
// selector / call substitutions (P4, P5, P6, P7)

type selSub struct {
	pkg, name string
	repl      string
	call      bool // replacement is a call expression verifsim.X()
	files     map[string]bool
	funcs     map[string]bool // restrict to these enclosing functions (nil = any)
}

func set(xs ...string) map[string]bool {
	m := map[string]bool{}
	for _, x := range xs {
		m[x] = true
	}
	return m
}

var procFiles = set("comm.go", "trz.go", "tsz.go", "transfer.go")

var selSubs = []selSub{
	{pkg: "time", name: "Sleep", repl: "Sleep"},
	{pkg: "runtime/debug", name: "Stack", repl: "Stack"}, // stack text with addresses/goroutine ids would end up in FAIL messages
	{pkg: "os", name: "Stdin", repl: "Stdin", call: true, files: procFiles},
	{pkg: "os", name: "Stdout", repl: "Stdout", call: true, files: procFiles},
	{pkg: "os", name: "Stderr", repl: "Stderr", call: true, files: procFiles},
	{pkg: "os", name: "Args", repl: "Args", call: true, files: procFiles},
	{pkg: "os", name: "LookupEnv", repl: "LookupEnv", files: set("comm.go")},
	{pkg: "os", name: "Getenv", repl: "Getenv", files: set("comm.go")},
	{pkg: "net", name: "Listen", repl: "NetListen", files: set("comm.go")},
	{pkg: "os", name: "Stat", repl: "TtyStat", files: set("comm.go"), funcs: set("checkTmux")},
	{pkg: "os", name: "OpenFile", repl: "TtyOpen", files: set("comm.go"), funcs: set("checkTmux")},
	{pkg: "os", name: "CreateTemp", repl: "FsCreateTemp", files: set("comm.go")}, // trace log: a name that does not vary from run to run
	// creating a destination file or directory is a scheduling point (and a place for a slow disk)
	{pkg: "os", name: "OpenFile", repl: "FsOpenFile", files: set("transfer.go"), funcs: set("doCreateFile")},
	{pkg: "os", name: "MkdirAll", repl: "FsMkdirAll", files: set("transfer.go"), funcs: set("doCreateDirectory")},
}

var importSubs = map[string]map[string][2]string{ // file -> old import path -> (name, new path)
	"comm.go":   {"os/exec": {"exec", simPath + "/simexec"}, "os/signal": {"signal", simPath + "/simsignal"}},
	"zmodem.go": {"os/exec": {"exec", simPath + "/simexec"}},
}

func (r *rw) pkgOf(x ast.Expr) string {
	id, ok := x.(*ast.Ident)
	if !ok {
		return ""
	}
	if pn, ok := r.info.Uses[id].(*types.PkgName); ok {
		return pn.Imported().Path()
	}
	return ""
}

func (r *rw) substitute(file *ast.File) {
	var funcStack []string
	astutil.Apply(file, func(c *astutil.Cursor) bool {
		if fd, ok := c.Node().(*ast.FuncDecl); ok {
			funcStack = append(funcStack, fd.Name.Name)
		}
		return true
	}, func(c *astutil.Cursor) bool {
		switch n := c.Node().(type) {
		case *ast.FuncDecl:
			funcStack = funcStack[:len(funcStack)-1]
		case *ast.CallExpr:
			if recv, method, ok := r.isMutexCall(n); ok {
				r.used = true
				r.stats["mutex"]++
				addr := recv
				if _, isPtr := r.info.TypeOf(recv).(*types.Pointer); !isPtr {
					addr = &ast.UnaryExpr{Op: token.AND, X: recv}
				}
				if method == "Lock" {
					c.Replace(&ast.CallExpr{Fun: vs("Lock"), Args: []ast.Expr{addr, r.site(n.Pos())}})
				} else {
					c.Replace(&ast.CallExpr{Fun: vs("Unlock"), Args: []ast.Expr{addr}})
				}
			}
		case *ast.SelectorExpr:
			pkg := r.pkgOf(n.X)
			if pkg == "" {
				return true
			}
			for _, s := range selSubs {
				if s.pkg != pkg || s.name != n.Sel.Name {
					continue
				}
				if s.files != nil && !s.files[r.fname] {
					continue
				}
				if s.funcs != nil && (len(funcStack) == 0 || !s.funcs[funcStack[len(funcStack)-1]]) {
					continue
				}
				r.used = true
				r.stats["sub:"+s.pkg+"."+s.name]++
				if s.call {
					c.Replace(&ast.CallExpr{Fun: vs(s.repl)})
				} else {
					c.Replace(vs(s.repl))
				}
				break
			}
		}
		return true
	})
}

// P7: entry hooks and the tuning-knob var.
func (r *rw) entryHooks(file *ast.File) {
	for _, d := range file.Decls {
		switch v := d.(type) {
		case *ast.GenDecl:
			if v.Tok == token.CONST && len(v.Specs) == 1 {
				vs := v.Specs[0].(*ast.ValueSpec)
				if len(vs.Names) == 1 && vs.Names[0].Name == "kPrefixHashStep" && vs.Type == nil {
					v.Tok = token.VAR
					vs.Type = ast.NewIdent("int64")
					r.stats["hook:kPrefixHashStep"]++
				}
			}
		case *ast.FuncDecl:
			if v.Body == nil {
				continue
			}
			recvName, recvType := "", ""
			if v.Recv != nil && len(v.Recv.List) == 1 {
				if len(v.Recv.List[0].Names) == 1 {
					recvName = v.Recv.List[0].Names[0].Name
				}
				t := v.Recv.List[0].Type
				if st, ok := t.(*ast.StarExpr); ok {
					t = st.X
				}
				if id, ok := t.(*ast.Ident); ok {
					recvType = id.Name
				}
			}
			if recvType == "" && v.Name.Name == "newTrzszBuffer" && r.fname == "buffer.go" {
				// tuning knob: the capacity of the queue of received reads
				ast.Inspect(v.Body, func(n ast.Node) bool {
					if ce, ok := n.(*ast.CallExpr); ok && len(ce.Args) == 2 {
						if id, ok := ce.Fun.(*ast.Ident); ok && id.Name == "make" {
							if bl, ok := ce.Args[1].(*ast.BasicLit); ok && bl.Value == "10000" {
								ce.Args[1] = parseStmt("_ = verifsim.BufQueueCap()").(*ast.AssignStmt).Rhs[0]
								r.used = true
								r.stats["hook:bufQueueCap"]++
							}
						}
					}
					return true
				})
			}
			var hook ast.Stmt
			switch {
			case recvType == "" && v.Name.Name == "isWindowsEnvironment" && r.fname == "comm.go":
				hook = parseStmt(`if __v, __ok := verifsim.WindowsEnv(); __ok { return __v }`)
			case recvType == "" && v.Name.Name == "checkTmux" && r.fname == "comm.go":
				// result 1 becomes the process-local file interface
				if v.Type.Results != nil && len(v.Type.Results.List) == 4 {
					v.Type.Results.List[1].Type = vsType("File")
					r.used = true
					r.stats["hook:checkTmuxType"]++
				}
			case (recvType == "simpleFileReader" && v.Name.Name == "Read") || (recvType == "simpleFileWriter" && v.Name.Name == "Write"):
				if recvName != "" && len(v.Type.Params.List) == 1 && len(v.Type.Params.List[0].Names) == 1 && hasField(r.info, v, "file") {
					p := v.Type.Params.List[0].Names[0].Name
					fn := "FileReadHook"
					if v.Name.Name == "Write" {
						fn = "FileWriteHook"
					}
					hook = parseStmt(fmt.Sprintf(`if __n, __err, __ok := verifsim.%s(%s.file, %s); __ok { return __n, __err }`, fn, recvName, p))
				}
			}
			if hook != nil {
				r.used = true
				r.stats["hook:"+v.Name.Name]++
				r.gen[hook] = true
				v.Body.List = append([]ast.Stmt{hook}, v.Body.List...)
			}
		}
	}
}

func vsType(name string) ast.Expr { return vs(name) }

func hasField(info *types.Info, fd *ast.FuncDecl, field string) bool {
	obj, ok := info.Defs[fd.Name].(*types.Func)
	if !ok {
		return false
	}
	sig := obj.Type().(*types.Signature)
	if sig.Recv() == nil {
		return false
	}
	t := sig.Recv().Type()
	if p, ok := t.(*types.Pointer); ok {
		t = p.Elem()
	}
	st, ok := t.Underlying().(*types.Struct)
	if !ok {
		return false
	}
	for i := 0; i < st.NumFields(); i++ {
		if st.Field(i).Name() == field {
			if n, ok := namedFrom(st.Field(i).Type(), "os"); ok && n == "File" {
				return true
			}
		}
	}
	return false
}

var gFset *token.FileSet

func parseStmt(src string) ast.Stmt {
	f, err := parser.ParseFile(gFset, "", "package p\nfunc _() {\n"+src+"\n}", 0)
	if err != nil {
		fatalf("internal: parse %q: %v", src, err)
	}
	return f.Decls[0].(*ast.FuncDecl).Body.List[0]
}

// ---------------------------------------------------------------------------------------------

func (r *rw) processFile(file *ast.File) {
	// labeled selects are not supported by P3
	ast.Inspect(file, func(n ast.Node) bool {
		if l, ok := n.(*ast.LabeledStmt); ok {
			if _, ok := l.Stmt.(*ast.SelectStmt); ok {
				fatalf("%s: labeled select not supported", r.fset.Position(l.Pos()))
			}
		}
		return true
	})
	// P3 + P2, post-order so inner statements are rewritten first
	astutil.Apply(file, nil, func(c *astutil.Cursor) bool {
		switch n := c.Node().(type) {
		case *ast.SelectStmt:
			c.Replace(r.rewriteSelect(n))
		case *ast.GoStmt:
			if !r.gen[n] {
				c.Replace(r.rewriteGo(n))
			}
		}
		return true
	})
	r.substitute(file)
	r.entryHooks(file)
	// P1 over every function body
	ast.Inspect(file, func(n ast.Node) bool {
		switch v := n.(type) {
		case *ast.FuncDecl:
			if v.Body != nil {
				v.Body.List = r.doList(v.Body.List, nil)
			}
		case *ast.FuncLit:
			v.Body.List = r.doList(v.Body.List, nil)
		}
		return true
	})
}

func leadingConstraints(src []byte) string {
	var out []string
	for _, line := range strings.Split(string(src), "\n") {
		t := strings.TrimSpace(line)
		if strings.HasPrefix(t, "package ") {
			break
		}
		if strings.HasPrefix(t, "//go:build") || strings.HasPrefix(t, "// +build") {
			out = append(out, t)
		}
	}
	if len(out) == 0 {
		return ""
	}
	return strings.Join(out, "\n") + "\n\n"
}

func main() {
	if len(os.Args) != 2 {
		fatalf("usage: vrewrite <srcdir>")
	}
	dir, _ := filepath.Abs(os.Args[1])
	cfg := &packages.Config{
		Mode: packages.NeedName | packages.NeedFiles | packages.NeedCompiledGoFiles | packages.NeedSyntax | packages.NeedTypes |
			packages.NeedTypesInfo | packages.NeedImports | packages.NeedDeps,
		Dir: dir,
		Env: append(os.Environ(), "GOFLAGS=-mod=mod", "GOPROXY=off", "GOSUMDB=off", "GOTOOLCHAIN=local"),
	}
	pkgs, err := packages.Load(cfg, "./trzsz")
	if err != nil {
		fatalf("load: %v", err)
	}
	if len(pkgs) != 1 {
		fatalf("expected one package, got %d", len(pkgs))
	}
	pkg := pkgs[0]
	gFset = pkg.Fset
	if len(pkg.Errors) > 0 {
		for _, e := range pkg.Errors {
			fmt.Fprintln(os.Stderr, "vrewrite: package error:", e)
		}
		os.Exit(2)
	}
	total := map[string]int{}
	for i, file := range pkg.Syntax {
		path := pkg.CompiledGoFiles[i]
		if strings.HasSuffix(path, "_test.go") || !strings.HasPrefix(path, dir) {
			continue
		}
		src, err := os.ReadFile(path)
		if err != nil {
			fatalf("read %s: %v", path, err)
		}
		r := &rw{fset: pkg.Fset, info: pkg.TypesInfo, fname: filepath.Base(path), gen: map[ast.Node]bool{}, stats: map[string]int{}}
		r.processFile(file)
		if subs, ok := importSubs[r.fname]; ok {
			for old, nw := range subs {
				if astutil.DeleteImport(pkg.Fset, file, old) {
					astutil.AddNamedImport(pkg.Fset, file, nw[0], nw[1])
					r.stats["import:"+old]++
				}
			}
		}
		if r.used {
			astutil.AddImport(pkg.Fset, file, simPath)
		}
		// drop imports that became unused
		for _, imp := range append([]*ast.ImportSpec(nil), file.Imports...) {
			if imp == nil || imp.Path == nil {
				continue
			}
			p, _ := strconv.Unquote(imp.Path.Value)
			if imp.Name != nil && (imp.Name.Name == "_" || imp.Name.Name == ".") {
				continue
			}
			if p != "os" && p != "net" && p != "time" && p != "runtime/debug" {
				continue
			}
			if !astutil.UsesImport(file, p) {
				name := ""
				if imp.Name != nil {
					name = imp.Name.Name
				}
				astutil.DeleteNamedImport(pkg.Fset, file, name, p)
			}
		}
		constraints := leadingConstraints(src)
		file.Comments = nil
		file.Doc = nil
		var buf bytes.Buffer
		buf.WriteString(constraints)
		if err := format.Node(&buf, pkg.Fset, file); err != nil {
			fatalf("print %s: %v", path, err)
		}
		if err := os.WriteFile(path, buf.Bytes(), 0644); err != nil {
			fatalf("write %s: %v", path, err)
		}
		for k, v := range r.stats {
			total[k] += v
		}
	}
	fmt.Printf("vrewrite: ok")
	for _, k := range sortedKeys(total) {
		fmt.Printf(" %s=%d", k, total[k])
	}
	fmt.Println()
}

func sortedKeys(m map[string]int) []string {
	var ks []string
	for k := range m {
		ks = append(ks, k)
	}
	for i := range ks {
		for j := i + 1; j < len(ks); j++ {
			if ks[j] < ks[i] {
				ks[i], ks[j] = ks[j], ks[i]
			}
		}
	}
	return ks
}
