package trzsz

import (
	"encoding/json"
	"fmt"
	"os"
	"path/filepath"
	"runtime"
	"strings"
	"time"

	"github.com/trzsz/trzsz-go/internal/verifsim"
)

// Further attack surfaces of C12 besides the typed protocol lines: the entry headers inside an archive
// stream (peer-supplied JSON with its own size and type fields), and the terminal output that the idle
// client scans for triggers, zmodem headers and clipboard sequences, read boundary by read boundary.

// ---------------------------------------------------------------------------------------------
// hostile archive streams, fed to the real archive writer

func vC12Archive(rc *runCtx) {
	tp := rc.tape
	w := rc.w
	dst := filepath.Join(rc.dir, "dst")
	os.MkdirAll(dst, 0755)
	recv := newTransfer(discardWriter{}, nil, false, nil)
	recv.transferConfig.Protocol = kProtocolVersion4
	recv.transferConfig.Directory = true
	recv.transferConfig.Overwrite = tp.Bool("c12a.y", 300)
	top := &sourceFile{PathID: 0, RelPath: []string{"tree"}, IsDir: true, Archive: true}
	fw, _, err := recv.createDirOrFile(dst, top, true)
	if err != nil {
		rc.res.Class = "error"
		rc.res.Msg = err.Error()
		return
	}
	var stream []byte
	var log []string
	names := []string{"a.txt", "sub", "b.bin", "deep", "x", "empty", "sub2"}
	n := 1 + tp.Draw("c12a.entries", 5)
	hostile := 0
	for i := 0; i < n; i++ {
		isDir := tp.Bool("c12a.dir", 300)
		size := tp.Draw("c12a.size", 3000)
		if isDir {
			size = 0
		}
		path := []string{"tree"}
		for d := tp.Draw("c12a.depth", 3); d > 0; d-- {
			path = append(path, names[tp.Draw("c12a.dname", len(names))])
		}
		path = append(path, names[tp.Draw("c12a.name", len(names))])
		hdr := map[string]any{"path_id": 0, "path_name": path, "is_dir": isDir, "size": size, "perm": 0644}
		payload := size
		what := "valid"
		if tp.Bool("c12a.hostile", 500) {
			hostile++
			switch tp.Draw("c12a.kind", 7) {
			case 0: // a directory entry that announces a payload
				hdr["is_dir"] = true
				hdr["size"] = 1 + tp.Draw("c12a.dirsize", 5000)
				payload = tp.Draw("c12a.dirpayload", 200)
				what = "dir-with-size"
			case 1: // boundary size
				hdr["size"] = json.RawMessage([]string{"-1", "-9223372036854775808", "4611686018427387904", "9223372036854775807", "2147483648", "1e30", "0.5", "\"7\""}[tp.Draw("c12a.sz", 8)])
				payload = tp.Draw("c12a.szpayload", 300)
				what = "boundary-size"
			case 2: // nested archive entry
				hdr["archive"] = true
				hdr["is_dir"] = tp.Bool("c12a.nesteddir", 700)
				what = "nested-archive"
			case 3: // payload shorter or longer than announced
				payload = size + tp.Draw("c12a.delta", 41) - 20
				if payload < 0 {
					payload = 0
				}
				what = "payload-length-mismatch"
			case 4:
				hdr["perm"] = json.RawMessage([]string{"-1", "4294967296", "\"rw\"", "null", "1e9", "511"}[tp.Draw("c12a.perm", 6)])
				what = "boundary-perm"
			case 5:
				hdr["path_id"] = json.RawMessage([]string{"-1", "2147483648", "9223372036854775808", "\"0\"", "null"}[tp.Draw("c12a.pid", 5)])
				what = "boundary-path-id"
			default:
				what = "generic"
			}
		}
		js, _ := json.Marshal(hdr)
		line := vEncode(js)
		if what == "generic" {
			line = vHostileEncoded(tp, line)
		}
		log = append(log, fmt.Sprintf("%s %s", what, vClip(string(js), 90)))
		stream = append(stream, line...)
		stream = append(stream, '\n')
		stream = append(stream, tp.Bytes("c12a.body", payload)...)
	}
	rc.res.Scenario["entries"] = log
	rc.res.ClassKey = fmt.Sprintf("archive %d/%d hostile", hostile, n)
	var m0, m1 runtime.MemStats
	runtime.ReadMemStats(&m0)
	done := false
	var werr error
	w.Go("writer", nil, func() {
		defer func() { done = true }()
		pos := 0
		for pos < len(stream) {
			k := 1 + tp.Draw("c12a.seg", 700)
			if tp.Bool("c12a.seg1", 200) {
				k = 1
			}
			if pos+k > len(stream) {
				k = len(stream) - pos
			}
			rc.fault("hostile-archive-entry")
			if werr = writeAll(fw, stream[pos:pos+k]); werr != nil {
				break
			}
			pos += k
		}
		fw.Close()
	})
	w.Run(func() bool { return done })
	runtime.ReadMemStats(&m1)
	rc.res.Scenario["write_error"] = fmt.Sprint(werr)
	alloc := int64(m1.TotalAlloc - m0.TotalAlloc)
	if alloc > 64<<20+64*int64(len(stream)) {
		rc.violate("alloc", "C12:alloc:archive", "writing a %d-byte archive stream allocated %d MiB; entries %v", len(stream), alloc>>20, log)
		return
	}
	rc.res.Nontrivial = hostile > 0
}

// ---------------------------------------------------------------------------------------------
// hostile terminal output in front of the idle client

var vHostileTerm = []string{
	"\x1b]52;c;aGVsbG8=\a", "\x1b]52;c;aGVsbG8=\x1b\\", "\x1b]52;;aGVsbG8=\a", "\x1b]52;c\a", "\x1b]52;\a", "\x1b]52;c;\a", "\x1b]52;c;====\a", "\x1b]52;cpqs01234567;aGk=\a",
	"\x1b]52;c;!!!!\x1b\\", "\x1b]52;c;aGVsbG8", "\x1b]52;c;?\a", "\x1b]5", "\x1b]52;c;aGVsbG8=\x1b", "\x1b]52;c;aGVs\x1b]52;c;bG8=\a",
	"::TRZSZ:TRANSFER:S:1.1.8:4668480000000:0\r\n", "::TRZSZ:TRANSFER:R:1.1.8:4668480000001:0\r\n", "::TRZSZ:TRANSFER:D:1.1.8:4668480000002:0\r\n",
	"::TRZSZ:TRANSFER:S:1.1.8:99999999999999999999999999:0\r\n", "::TRZSZ:TRANSFER:S:1.1.8:-1:0\r\n", "::TRZSZ:TRANSFER:S:999999999999.1.8:1\r\n", "::TRZSZ:TRANSFER:S:1.1.8:4668480000010:99999999\r\n",
	"::TRZSZ:TRANSFER:S:1.1.8:4668480000020:-5\r\n", "::TRZSZ:TRANSFER:S:1.1.8:4668480000000:\r\n", "::TRZSZ:TRANSFER:S:1.1.8\r\n", "::TRZSZ:TRANSFER:R:1.1.8:0\r\n", "::TRZSZ:TRANSFER:S:1.1.8:4668480000000:0:0:0\r\n",
	"::TRZSZ:TRANSFER:S:1.1.8:4668480000000:0#R\r\n", "::TRZSZ:TRANSFER:S:1.1.8:46684800000001234567890123456789\r\n", "::TRZSZ:TRANSFER:", "::TRZSZ:TRANSFER:S:",
	"**\x18B00000000000000\r\x8a\x11", "**\x18B0100000023be50\r\x8a\x11", "**\x18B0", "**\x18B", "**\x18", "**\x18B00", "**\x18B0100000023be5", "**\x18B01zzzzzzzzzzzz\r\x8a", "**\x18A\x00\x00\x00\x00\x00",
	"**\x18C\x04\x00\x00\x00\x00", "\x18\x18\x18\x18\x18\x08\x08\x08\x08\x08", "rz waiting to receive.**\x18B0100000023be50\r\x8a\x11", "**\x18B0800000000022d\r\x8a",
	"%output %1 ::TRZSZ:TRANSFER:S:1.1.8:4668480000030:0\\015\\012\r\n", "%output %", "%begin 1 2 3\r\n%end 1 2 3\r\n", "%output %1 \\03", "%extended-output %1 0 : x\\",
	"<ENABLE_TRZSZ_TRACE_LOG>", "<DISABLE_TRZSZ_TRACE_LOG>", "<ENABLE_TRZSZ_TRACE_LOG", "\x1b7\x07::TRZSZ:TRANSFER:S:1.1.8:4668480000040:0\r\n\x1b8\x1b[0J",
	"#CFG:eJwEwEsKAjEM\n", "#fail:eJwLSS0uAQAEXQHm\n", "#EXIT:####\n", "\x1b[", "\x1b]", "\x1bP", "\x1b[999999999999999999999;1H", "\x1b[?25", "\x00\x00\x00", "\xff\xfe\xfd",
}

var vHostileTyped = []string{"/no/such/file ", "'/unterminated ", "\"/tmp/x\" ", "'' ", "' ", "/ ", "// // ", "\x00 ", "/tmp/" + strings.Repeat("a", 5000) + " ", "~/x ", "C:\\Users\\x ", "'C:\\a b\\c' ",
	"\x1b[200~/etc/hosts \x1b[201~", "/etc/hosts\t/etc/passwd ", "/etc/hosts\\ ", "\\ ", "/dev/null ", "/proc/self/mem "}

func vC12Terminal(rc *runCtx) {
	tp := rc.tape
	w := rc.w
	fo := TrzszOptions{DetectDragFile: tp.Bool("c12t.drag", 800), DetectTraceLog: tp.Bool("c12t.trace", 500), EnableZmodem: tp.Bool("c12t.zmodem", 800), EnableOSC52: tp.Bool("c12t.osc52", 800)}
	cfg := vDrawConfig(tp, false)
	cfg.trigVersion, cfg.bufSize, cfg.upload = "", "", false
	src := filepath.Join(rc.dir, "src")
	dst := filepath.Join(rc.dir, "dst")
	os.MkdirAll(dst, 0755)
	spec := vGenSources(rc, src, 1, false, 2000, false)
	o := cfg.opts()
	o.srcPaths, o.dstDir, o.filterOpts = spec.paths, dst, fo
	o.profile = transportProfile{}
	o.cols = int32([]int{80, 20, 6}[tp.Draw("c12t.cols", 3)])
	o.simCap = 30 * time.Minute
	writeToClipboard = func(b []byte) {}
	x := newXferWorld(rc, o)
	x.noServer = true
	x.start()
	w.Run(func() bool { return x.clientReady && x.filter != nil })
	var log []string
	done := false
	existing := spec.paths[0]
	w.Go("hostile-terminal", nil, func() {
		defer func() { done = true }()
		read := func(b []byte) {
			if len(b) == 0 {
				return
			}
			rc.fault("hostile-terminal-read")
			x.down[0].Write(b)
			verifsim.Sleep(2 * time.Millisecond) // one write, one read
		}
		if tp.Bool("c12t.allsplits", 500) {
			// one token, every position of the read boundary
			tok := vHostileTerm[tp.Draw("c12t.tok", len(vHostileTerm))]
			log = append(log, "all splits of "+vClip(fmt.Sprintf("%q", tok), 60))
			for k := 1; k < len(tok) && k < 80; k++ {
				read([]byte(tok[:k]))
				read([]byte(tok[k:]))
				read([]byte("\r\n$ "))
				verifsim.Sleep(80 * time.Millisecond) // a transfer starts 50 ms after its trigger
				if x.filter.IsTransferringFiles() {
					// a well-formed trigger does start a transfer; let it fail before going on
					for i := 0; i < 700 && x.filter.IsTransferringFiles(); i++ {
						verifsim.Sleep(100 * time.Millisecond)
					}
				}
			}
			return
		}
		n := 2 + tp.Draw("c12t.n", 10)
		for i := 0; i < n; i++ {
			switch tp.Pick("c12t.kind", 6, 2, 1) {
			case 0:
				tok := vHostileTerm[tp.Draw("c12t.tok", len(vHostileTerm))]
				if tp.Bool("c12t.big", 60) {
					tok = "\x1b]52;c;" + strings.Repeat("QUJD", 1+tp.Draw("c12t.bign", 60000)) + []string{"\a", "", "\x1b\\"}[tp.Draw("c12t.bigend", 3)]
				}
				cut := len(tok)
				if tp.Bool("c12t.split", 600) && len(tok) > 1 {
					cut = 1 + tp.Draw("c12t.cut", len(tok)-1)
				}
				log = append(log, fmt.Sprintf("out %s cut@%d", vClip(fmt.Sprintf("%q", tok), 40), cut))
				read([]byte(tok[:cut]))
				read([]byte(tok[cut:]))
			case 1:
				b := []byte(vHostileTyped[tp.Draw("c12t.typed", len(vHostileTyped))])
				if tp.Bool("c12t.existing", 300) {
					b = []byte(vShellQuote(existing) + " ")
				}
				log = append(log, "typed "+vClip(fmt.Sprintf("%q", b), 40))
				rc.fault("hostile-typed-input")
				x.kbd.Write(b)
				verifsim.Sleep(2 * time.Millisecond)
			default:
				b := tp.Bytes("c12t.rand", 1+tp.Draw("c12t.randn", 300))
				log = append(log, fmt.Sprintf("out random %d bytes", len(b)))
				read(b)
			}
			if tp.Bool("c12t.wait", 200) {
				verifsim.Sleep(time.Duration(tp.Draw("c12t.ms", 3000)) * time.Millisecond)
			}
		}
	})
	w.Run(func() bool { return done })
	x.settle(time.Second)
	rc.res.Scenario["fed"] = log
	rc.res.Scenario["options"] = fmt.Sprintf("drag=%v trace=%v zmodem=%v osc52=%v", fo.DetectDragFile, fo.DetectTraceLog, fo.EnableZmodem, fo.EnableOSC52)
	rc.res.ClassKey = fmt.Sprintf("terminal %s", rc.res.Scenario["options"])
	if w.StepCap {
		return
	}
	// whatever was started (a transfer nobody answers, a zmodem session without a helper, a drag upload
	// without trz) ends by itself or when the user presses Ctrl-C
	for round := 0; round < 3 && x.filter.IsTransferringFiles(); round++ {
		x.settle(45 * time.Second)
		if x.filter.IsTransferringFiles() {
			w.Go("user", x.client, func() {
				x.kbd.Write([]byte{0x03})
				verifsim.Sleep(300 * time.Millisecond)
				x.typeKeys("\r", 20*time.Millisecond)
			})
			x.settle(25 * time.Second)
		}
	}
	x.settle(12 * time.Second)
	if msg := x.probeTransparent("after hostile terminal output"); msg != "" {
		rc.violate("unusable", "C12:unusable:terminal", "%s (fed %v; %s; sim=%v; parked=%s)", msg, log, rc.res.Scenario["options"], w.Now(), vClip(w.ParkedSummary(), 700))
		return
	}
	rc.res.Nontrivial = true
}

// vC12CancelThroughRelay: a download through one or two relays with tunnels that the user cancels in the file dialog
// (a stand-in dialog program that exits the way a cancelled dialog does): the client says so in its ACT and hangs
// up the tunnel at once. Nobody crashes; the relays are back in standby and transparent.
func vC12CancelThroughRelay(rc *runCtx) {
	tp := rc.tape
	dir := os.Getenv("PATH")
	if dir == "" || strings.Contains(dir, ":") {
		return
	}
	z := filepath.Join(dir, "zenity")
	if os.WriteFile(z, []byte("#!/bin/sh\nexit 1\n"), 0755) != nil {
		return
	}
	defer os.Remove(z)
	cfg := vDrawConfig(tp, false)
	cfg.upload, cfg.timeout, cfg.trigVersion = false, 5, ""
	cfg.tunnel = true
	cfg.relays = 1 + tp.Draw("c12cr.relays", 2)
	for i := 0; i < cfg.relays; i++ {
		cfg.relayTmux = append(cfg.relayTmux, []string{"", "normal", "control"}[tp.Pick("c12cr.rtmux", 3, 1, 1)])
	}
	src := filepath.Join(rc.dir, "src")
	dst := filepath.Join(rc.dir, "dst")
	os.MkdirAll(dst, 0755)
	spec := vGenSources(rc, src, 2, cfg.dirMode, 20000, true)
	o := cfg.opts()
	o.srcPaths, o.dstDir, o.noDefaultPath = spec.paths, dst, true
	o.profile = transportProfile{segPm: 200, coalPm: 100, latPm: 300, latMax: time.Duration(1+tp.Draw("c12cr.lat", 40)) * time.Millisecond}
	o.simCap = 10 * time.Minute
	rc.res.ClassKey = "cancel-through-relay " + cfg.key()
	rc.res.Scenario["config"] = cfg.key()
	rc.fault("download-cancelled-in-dialog-through-relay-tunnel")
	x := newXferWorld(rc, o)
	x.start()
	rc.w.Run(x.finished)
	if rc.w.StepCap {
		return
	}
	rep := x.report()
	if !rep.serverExited || x.filter.IsTransferringFiles() {
		rc.violate("hang", "C12:hang:cancel-through-relay", "a download cancelled in the file dialog through %d relay(s) with tunnels never ended (server exited=%v, client transferring=%v)", cfg.relays, rep.serverExited, x.filter.IsTransferringFiles())
		return
	}
	x.settle(1500 * time.Millisecond)
	for i, r := range x.relay {
		if st := r.relayStatus.Load(); st != kRelayStandBy {
			rc.violate("unusable", "C12:relay-not-standby:cancel", "after the cancelled download relay %d is still in state %d", i+1, st)
			return
		}
	}
	if msg := x.probeThroughRelays("after a download cancelled in the dialog"); msg != "" {
		rc.violate("unusable", "C12:unusable:cancel-through-relay", "%s", msg)
		return
	}
	rc.res.Nontrivial = true
}
