package trzsz

import (
	"bytes"
	"encoding/json"
	"fmt"
	"io"
	"os"
	"path/filepath"
	"regexp"
	"runtime"
	"strconv"
	"strings"
	"syscall"
	"time"

	"github.com/trzsz/trzsz-go/internal/verifsim"
)

func init() {
	vScenarios["C02"] = vScenarioC02
	vScenarios["C11"] = vScenarioC11
}

// ---------------------------------------------------------------------------------------------
// byte-level faults (C02)

type vByteFaulter struct {
	rc       *runCtx
	pm       int
	max      int
	fired    int
	armed    func() bool
	log      []string
	fr       *vFirer
	lens     []int // length of every candidate place (enumeration base runs)
	dataBias bool  // more of the faults are single flipped bits inside the payload of longer writes
}

func (f *vByteFaulter) mangle(l *verifsim.Link, data []byte) []byte {
	if f.fired >= f.max || len(data) == 0 || bytes.Contains(data, []byte("::TRZSZ:TRANSFER:")) {
		return data
	}
	if f.armed != nil && !f.armed() {
		return data
	}
	tp := f.rc.tape
	if f.fr == nil {
		f.fr = &vFirer{rc: f.rc, label: "bf.fire", pm: f.pm}
	}
	f.lens = append(f.lens, len(data))
	if !f.fr.fire() {
		return data
	}
	if abs, ok := f.rc.enumInt("enum_abs"); ok {
		// dense enumeration: one given bit of one given byte of this write
		bit, _ := f.rc.enumInt("enum_bit")
		f.fired++
		if abs >= len(data) {
			return data
		}
		out := append([]byte(nil), data...)
		out[abs] ^= 1 << uint(bit&7)
		f.rc.fault("byte-flip")
		f.log = append(f.log, fmt.Sprintf("flip bit %d of byte %d/%d of %s on %s", bit&7, abs, len(data), vQuote(data, 24), l.Name))
		return out
	}
	if f.dataBias && len(data) > 40 && tp.Bool("bf.databias", 600) {
		// a bit inside the payload of a longer write: on a raw (tunnel, binary) stream nothing but the digest sees it
		pos := 20 + tp.Draw("bf.dpos", len(data)-21)
		out := append([]byte(nil), data...)
		out[pos] ^= 1 << uint(tp.Draw("bf.bit", 8))
		f.fired++
		f.rc.fault("byte-flip")
		f.log = append(f.log, fmt.Sprintf("flip %s at %d/%d of %s", l.Name, pos, len(data), vQuote(data, 70)))
		return out
	}
	// position: biased towards the structural bytes of a protocol line
	n := len(data)
	var pos int
	where := tp.Draw("bf.where", 7)
	if v, ok := f.rc.enumInt("enum_pos"); ok {
		where = v % 7
		if where == 6 {
			where = 5
		}
	}
	switch where {
	case 0:
		pos = 0
	case 1:
		pos = bytes.IndexByte(data, ':')
	case 2:
		pos = bytes.IndexByte(data, ':') + 1
	case 3:
		pos = n - 1
	case 4:
		pos = n - 2
	case 5:
		pos = n / 2
	default:
		pos = tp.Draw("bf.pos", n)
	}
	if pos < 0 || pos >= n {
		pos = tp.Draw("bf.pos2", n)
	}
	k := 1 + tp.Rare("bf.k", 16, 300)
	out := append([]byte(nil), data...)
	kind := ""
	kindSel := tp.Draw("bf.kind", 5)
	if v, ok := f.rc.enumInt("enum_kind"); ok {
		kindSel = v % 5
	}
	switch kindSel {
	case 0:
		out[pos] ^= 1 << uint(tp.Draw("bf.bit", 8))
		kind = "flip"
	case 1:
		end := pos + k
		if end > n {
			end = n
		}
		out = append(out[:pos], out[end:]...)
		kind = "delete"
	case 2:
		end := pos + k
		if end > n {
			end = n
		}
		dup := append([]byte(nil), data[pos:end]...)
		out = append(append(append([]byte(nil), data[:end]...), dup...), data[end:]...)
		kind = "duplicate"
	case 3:
		ins := f.rc.tape.Bytes("bf.ins", k)
		if tp.Bool("bf.insproto", 500) {
			ins = []byte("#SUCC:")[:vMin(k, 6)]
		}
		out = append(append(append([]byte(nil), data[:pos]...), ins...), data[pos:]...)
		kind = "insert"
	default:
		out = out[:pos]
		kind = "truncate"
	}
	f.fired++
	f.rc.fault("byte-" + kind)
	f.log = append(f.log, fmt.Sprintf("%s %s at %d/%d of %s", kind, l.Name, pos, n, vQuote(data, 70)))
	return out
}

func vMin(a, b int) int {
	if a < b {
		return a
	}
	return b
}

func vSmallXfer(rc *runCtx, timeouts []int) (*vXferConfig, *xferOpts, vSnap) {
	tp := rc.tape
	cfg := vDrawConfig(tp, false)
	cfg.timeout = timeouts[tp.Draw("f.timeout", len(timeouts))]
	cfg.bufSize = []string{"", "1K", "4k"}[tp.Pick("f.buf", 3, 1, 1)]
	if tp.Bool("f.relay", 150) {
		cfg.relays = 1
	}
	src := filepath.Join(rc.dir, "src")
	dst := filepath.Join(rc.dir, "dst")
	os.MkdirAll(dst, 0755)
	resume := rc.param("resume", "") == "1"
	if resume {
		// the resume (prefix hash) exchange is the subject: overwrite, a protocol that has it, files to resume over
		cfg.overwrite = true
		cfg.trigVersion = ""
		if cfg.protocol == 1 || cfg.protocol == 2 {
			cfg.protocol = 0
		}
	}
	// "pipelined" flavour: one incompressible file large enough, with a small buffer, for the sender to leave
	// the one-chunk-at-a-time probing phase and run with a full window of unacknowledged chunks
	pipelined := !resume && tp.Bool("f.pipelined", 250)
	if pipelined {
		cfg.bufSize = []string{"1K", "4k"}[tp.Draw("f.pbuf", 2)]
	}
	slowdisk := rc.param("slowdisk", "") == "1"
	if slowdisk {
		// a download of several megabytes whose decoded blocks queue up behind a slow disk
		cfg.upload = false
		cfg.binary = true
		cfg.escapeAll = false
		cfg.compress = "no"
		cfg.bufSize = ""
		cfg.dirMode = false
		cfg.relays = 0
		pipelined = false
	}
	dataflips := rc.param("dataflips", "") == "1"
	if dataflips {
		// every bit of the data chunks: small files that travel uncompressed (a damaged compressed stream fails
		// in the decoder; an uncompressed one has only the digest between it and the disk)
		cfg.compress = "no"
		cfg.bufSize = ""
		cfg.dirMode = false
		pipelined = false
	}
	spec := vGenSources(rc, src, 3, cfg.dirMode, 40000, !cfg.overwrite)
	if dataflips {
		for _, p := range spec.paths {
			os.RemoveAll(p)
		}
		spec.paths = nil
		spec.files = 1 + tp.Draw("f.dfiles", 2)
		for i := 0; i < spec.files; i++ {
			p := filepath.Join(src, fmt.Sprintf("d%d.bin", i))
			vWriteFile(p, tp.Bytes("f.dcontent", 60+tp.Draw("f.dsize", 300)))
			spec.paths = append(spec.paths, p)
		}
	}
	if slowdisk {
		for _, p := range spec.paths {
			os.RemoveAll(p)
		}
		p := filepath.Join(src, "big.bin")
		vWriteFile(p, tp.Bytes("f.slowbig", (4<<20)+tp.Draw("f.slowbigsz", 4<<20)))
		spec.paths, spec.files = []string{p}, 1
	}
	if pipelined {
		big := tp.Bytes("f.pbig", 40000+tp.Draw("f.pbigsz", 90000))
		p := spec.paths[0]
		if st, err := os.Stat(p); err == nil && st.IsDir() {
			p = filepath.Join(p, "zz-big.bin")
			spec.files++
		}
		vWriteFile(p, big)
		rc.res.Scenario["pipelined"] = len(big)
	}
	if cfg.overwrite && (tp.Bool("f.preexist", 500) || resume) {
		// some destination content to resume over (hash exchange phase)
		for _, p := range spec.paths {
			if st, err := os.Stat(p); err == nil && !st.IsDir() {
				b, _ := os.ReadFile(p)
				if len(b) > 2 {
					vWriteFile(filepath.Join(dst, filepath.Base(p)), vPriorContent(tp, b))
				}
			}
		}
	}
	o := cfg.opts()
	o.srcPaths = spec.paths
	o.dstDir = dst
	o.kHash = []int64{1024, 4096}[tp.Draw("f.khash", 2)]
	o.profile = transportProfile{segPm: []int{0, 200, 1000}[tp.Draw("f.seg", 3)], coalPm: 100, latPm: 200, latMax: 50 * time.Millisecond}
	o.simCap = 20 * time.Minute
	rc.res.Scenario["config"] = cfg.key()
	rc.res.Scenario["flags"] = strings.Join(o.flags, " ")
	rc.res.Scenario["files"] = spec.files
	return cfg, o, vSnapshot(dst)
}

func vScenarioC02(rc *runCtx) {
	tp := rc.tape
	cfg, o, before := vSmallXfer(rc, []int{5, 20})
	// the connection may be the tunnel: its bytes can be damaged like any others
	if _, enum := rc.enumInt("enum_k"); !enum && rc.param("resume", "") != "1" && tp.Bool("bf.tunnel", 150) {
		o.tunnel = true
		rc.fault("tunnel-carries-the-transfer")
		if tp.Bool("bf.tunnelnocomp", 500) {
			cfg.compress = "no"
			o.flags = cfg.flags()
			rc.res.Scenario["flags"] = strings.Join(o.flags, " ")
		}
	}
	x := newXferWorld(rc, o)
	bf := &vByteFaulter{rc: rc, pm: []int{30, 80, 200}[tp.Draw("bf.rate", 3)], max: 1 + tp.Pick("bf.max", 6, 2, 1), dataBias: o.tunnel}
	if _, ok := rc.enumInt("enum_k"); ok {
		bf.max = 1
	}
	// attach to one or both directions of one hop
	hop := tp.Draw("bf.hop", len(x.up))
	dirs := tp.Pick("bf.dir", 2, 2, 1)
	if _, ok := rc.enumInt("enum_k"); ok {
		dirs = 2 // both directions of the hop are candidate places
	}
	attach := func(l *verifsim.Link) {
		prev := l.Mangle
		l.Mangle = func(l *verifsim.Link, d []byte) []byte {
			if prev != nil {
				d = prev(l, d)
			}
			return bf.mangle(l, d)
		}
	}
	if dirs == 0 || dirs == 2 {
		attach(x.up[hop])
	}
	if dirs == 1 || dirs == 2 {
		attach(x.down[hop])
	}
	x.onTunnel = append(x.onTunnel, func(h int, c *verifsim.Conn) {
		if h != hop {
			return
		}
		// (the dialling end's writes travel towards the server)
		if dirs == 0 || dirs == 2 {
			attach(c.Wr)
		}
		if dirs == 1 || dirs == 2 {
			attach(c.R)
		}
	})
	// tail truncation of a whole stream: from the moment the other direction carries a digest line (or its k-th
	// write) everything one direction still has to say is lost - alone or on top of the byte faults above
	if _, enum := rc.enumInt("enum_k"); !enum && tp.Bool("bf.cutstream", 150) {
		victim, other := x.down[hop], x.up[hop]
		if tp.Bool("bf.cutdir", 500) {
			victim, other = other, victim
		}
		atDigest := tp.Bool("bf.cutatdigest", 600)
		kth := 3 + tp.Draw("bf.cutk", 30)
		n, cut := 0, false
		cfgSeen := vArmAfterCfg(x)
		if atDigest && tp.Bool("bf.cutflip", 600) {
			// ... and the data that digest is about was damaged on its way, in a way only the digest can tell
			flipped := false
			prevM := other.Mangle
			other.Mangle = func(l *verifsim.Link, d []byte) []byte {
				if prevM != nil {
					d = prevM(l, d)
				}
				if flipped || !cfgSeen() || !bytes.HasPrefix(d, []byte("#DATA:")) || len(d) < 16 {
					return d
				}
				nl := bytes.IndexByte(d, '\n')
				if nl < 0 {
					nl = len(d)
				}
				lo := 6
				if nl < len(d)-1 {
					lo = nl + 1 // a sized binary block behind the header
					nl = len(d)
				}
				if nl-lo < 4 {
					return d
				}
				i := lo + 1 + tp.Draw("bf.cutflipat", nl-lo-2)
				out := append([]byte(nil), d...)
				switch c := out[i]; {
				case c >= 'A' && c < 'Z', c >= 'a' && c < 'z', c >= '0' && c < '9':
					out[i] = c + 1
				case c == 0xee || (i > 0 && out[i-1] == 0xee):
					return d
				default:
					out[i] = c ^ 0x01
				}
				flipped = true
				bf.fired++
				bf.log = append(bf.log, fmt.Sprintf("%s: one byte of a data chunk changed (offset %d of %d)", l.Name, i, len(d)))
				return out
			}
		}
		prevOn := other.OnWrite
		other.OnWrite = func(l *verifsim.Link, d []byte) {
			if prevOn != nil {
				prevOn(l, d)
			}
			if cut || !cfgSeen() {
				return
			}
			n++
			if (atDigest && bytes.HasPrefix(d, []byte("#MD5:"))) || (!atDigest && n >= kth) {
				cut = true
				victim.Discard = true
				bf.fired++
				bf.log = append(bf.log, fmt.Sprintf("%s: everything from now on is lost (the other direction is at write %d, %s)", victim.Name, n, vClip(string(d), 12)))
				rc.fault("stream-tail-lost")
			}
		}
	}
	rc.res.ClassKey = fmt.Sprintf("%s hop%d dir%d", cfg.key(), hop, dirs)
	x.start()
	rc.w.Run(x.finished)
	rep := x.report()
	rc.res.Scenario["faults_log"] = bf.log
	// reach: did the resume exchange match some steps and then not the next one?
	for _, msgs := range [][]vMsg{rep.clientMsgs, rep.serverMsgs} {
		prevMatch := false
		for _, m := range msgs {
			if m.Typ != "SUCC" {
				prevMatch = false
				continue
			}
			if j, err := vDecodeJSON(m.Payload); err != nil {
				prevMatch = false
			} else {
				if mt, ok := j["match"].(bool); ok {
					if prevMatch && !mt {
						rc.w.Probe("resume-match-then-mismatch")
					}
					if mt {
						rc.w.Probe("resume-step-matched")
					}
					prevMatch = mt
				}
			}
		}
	}
	rc.res.Probes = rc.w.Probes
	if bf.fr != nil {
		rc.res.Scenario["enum_places"] = bf.fr.count
		if k, ok := rc.enumInt("enum_k"); ok && k < 0 {
			rc.res.Scenario["enum_lens"] = bf.lens
		}
	}
	rc.res.Scenario["client_fail"] = vClip(rep.clientFail, 120)
	rc.res.Scenario["server_fail"] = vClip(rep.serverFail, 120)
	if bf.fired == 0 {
		// nothing was altered: this run says nothing about C02
		vCheckFidelity(rc, x, rep, before, false)
		rc.res.Nontrivial = false
		return
	}
	hung := !rep.serverExited || x.filter.IsTransferringFiles()
	if hung && !rc.w.StepCap {
		if x.slowNotHung() {
			rc.inconclusive("slow")
			return
		}
		rc.violate("hang", "C02:hang"+x.hangClass(), "after a byte fault the transfer neither succeeded nor ended with an error: server exited=%v client transferring=%v sim=%v faults=%v parked=%s",
			rep.serverExited, x.filter.IsTransferringFiles(), rc.w.Now(), bf.log, vClip(rc.w.ParkedSummary(), 500))
		return
	}
	vCheckFidelity(rc, x, rep, before, false)
	if rc.res.Class == "violation" {
		rc.res.Sig = strings.Replace(rc.res.Sig, "C01:", "C02:", 1)
		rc.res.Msg += fmt.Sprintf(" [faults: %v]", bf.log)
		return
	}
	rc.res.Nontrivial = true
	rc.res.Scenario["outcome"] = fmt.Sprintf("client_ok=%v server_ok=%v", rep.clientOK, rep.serverOK)
}

// ---------------------------------------------------------------------------------------------
// flow / local faults (C11)

var vWorkerRe = regexp.MustCompile(`trzsz\.\(\*trzszTransfer\)\.(pipeline\w+|sendFileDataV2|recvFileDataV2|sendFileData|recvFileData|sendFiles|recvFiles|sendPrefixHash|recvPrefixHash)|trzsz\.\(\*(sendDataWriter|recvDataReader)\)`)

// vLeakedWorkers lists goroutines of the client process that are still inside transfer worker code.
func vLeakedWorkers(w *verifsim.World, proc *verifsim.Proc) []string {
	buf := make([]byte, 4<<20)
	n := runtime.Stack(buf, true)
	dump := string(buf[:n])
	// current bubble id from our own header
	bubble := ""
	if i := strings.Index(dump, "synctest bubble "); i >= 0 {
		j := i + len("synctest bubble ")
		k := j
		for k < len(dump) && dump[k] >= '0' && dump[k] <= '9' {
			k++
		}
		bubble = dump[j:k]
	}
	var out []string
	for _, g := range strings.Split(dump, "\n\n") {
		hdrEnd := strings.IndexByte(g, '\n')
		if hdrEnd < 0 {
			continue
		}
		hdr := g[:hdrEnd]
		if !strings.Contains(hdr, "synctest bubble "+bubble+"]") {
			continue
		}
		m := vWorkerRe.FindString(g)
		if m == "" {
			continue
		}
		f := strings.Fields(hdr)
		if len(f) < 2 {
			continue
		}
		id, _ := strconv.ParseInt(f[1], 10, 64)
		if p := w.ProcOfGoroutine(id); p != nil && p != proc {
			continue
		}
		out = append(out, m)
	}
	return out
}

func vScenarioC11(rc *runCtx) {
	tp := rc.tape
	cfg, o, before := vSmallXfer(rc, []int{2, 5, 20})
	T := time.Duration(cfg.timeout) * time.Second
	// Windows newline mode has a line reader of its own: its reads carry the same deadlines
	if _, enum := rc.enumInt("enum_kind"); !enum && rc.param("slowdisk", "") != "1" && tp.Bool("c11.windows", 150) {
		if tp.Bool("c11.winsrv", 500) {
			cfg.srvWindows, o.srvWindows = true, true
		} else {
			cfg.cliWindows, o.cliWindows = true, true
		}
		rc.res.Scenario["config"] = cfg.key()
	}
	x := newXferWorld(rc, o)
	w := rc.w

	// "the handshake has begun": the server has consumed the ACT (it has written its CFG, and that
	// write has completed). trz/tsz wait for the ACT without a timer by design.
	actSeen := false
	cfgWrites := 0
	x.downLast().OnWrite = func(l *verifsim.Link, d []byte) {
		if cfgWrites > 0 {
			actSeen = true
		}
		if bytes.Contains(d, []byte("#CFG:")) {
			cfgWrites++
		}
	}
	x.upLast().OnWrite = func(l *verifsim.Link, d []byte) {
		if cfgWrites > 0 {
			actSeen = true
		}
	}
	c11kinds := []string{"silent-up", "silent-down", "silent-both", "close-up", "close-down", "break-up", "break-down", "disk-write", "disk-short-write", "src-read-error", "src-shrink", "stall-client", "stall-server"}
	kind := append(c11kinds, "src-shrink-at-name", "client-stop-delete")[tp.Draw("c11.kind", 15)]
	if rc.param("slowdisk", "") == "1" {
		kind = "disk-slow-then-full"
	}
	_, enumerated := rc.enumInt("enum_kind")
	if v, ok := rc.enumInt("enum_kind"); ok {
		kind = c11kinds[v%13]
	}
	notimeoutPm := 250
	if rc.param("resume", "") == "1" {
		// local failures while resuming over an older destination
		kind = []string{"src-shrink-at-name", "src-read-error", "src-shrink", "disk-write"}[tp.Pick("c11.resumekind", 3, 1, 1, 1)]
		notimeoutPm = 500
	}
	// a local failure ends the transfer also when the user asked never to time out
	if !enumerated && (strings.HasPrefix(kind, "disk-") || strings.HasPrefix(kind, "src-")) && kind != "disk-slow-then-full" && tp.Bool("c11.notimeout", notimeoutPm) {
		cfg.timeout = 0
		o.flags = cfg.flags()
		T = 0
		rc.res.Scenario["flags"] = strings.Join(o.flags, " ")
		rc.fault("never-time-out")
	}
	pm := []int{40, 120, 400}[tp.Draw("c11.rate", 3)]
	var faultAt time.Duration = -1
	brokeUp, brokeDown := false, false
	var shrunkPath string
	var shrunkOrig []byte
	fr := &vFirer{rc: rc, label: "c11.fire", pm: pm, once: true}
	x.firers = append(x.firers, fr)
	fire := func() bool {
		if faultAt >= 0 || !actSeen {
			return false
		}
		return fr.fire()
	}
	// the user may open the stop/continue question and choose "continue" while a read is already waiting
	// on the silent peer: the deadline moves, it does not disappear
	pauseAfter := tp.Bool("c11.pause", 200)
	pauseDelay := time.Duration(tp.Draw("c11.pausedelay", 900)) * time.Millisecond
	pauseLen := time.Duration(50+tp.Draw("c11.pauselen", 1500)) * time.Millisecond
	var resumedAt time.Duration
	mark := func() {
		faultAt = w.Now()
		rc.fault(kind)
		if pauseAfter && (strings.HasPrefix(kind, "silent") || strings.HasPrefix(kind, "stall")) {
			x.paused = true
			w.Go("user", x.client, func() {
				verifsim.Sleep(pauseDelay)
				if !x.filter.IsTransferringFiles() {
					return
				}
				rc.fault("pause-then-continue")
				x.kbd.Write([]byte{0x03})
				verifsim.Sleep(pauseLen)
				x.typeKeys("jj", 20*time.Millisecond)
				x.typeKeys("\r", 20*time.Millisecond)
				resumedAt = w.Now()
			})
		}
	}
	hop := tp.Draw("c11.hop", len(x.up))
	up, down := x.up[hop], x.down[hop]
	wrap := func(l *verifsim.Link, f func(l *verifsim.Link, d []byte) []byte) {
		prev := l.Mangle
		l.Mangle = func(l *verifsim.Link, d []byte) []byte {
			if prev != nil {
				d = prev(l, d)
			}
			return f(l, d)
		}
	}
	stallD := []time.Duration{T / 2, T + T/2, 3 * T}[tp.Draw("c11.stalld", 3)]
	var stallEnd time.Duration
	switch kind {
	case "silent-up", "silent-down", "silent-both":
		silent := false
		h := func(l *verifsim.Link, d []byte) []byte {
			if !silent && fire() {
				silent = true
				mark()
			}
			if silent {
				return nil
			}
			return d
		}
		if kind != "silent-down" {
			wrap(up, h)
		}
		if kind != "silent-up" {
			wrap(down, h)
		}
	case "close-up", "close-down", "break-up", "break-down":
		l := up
		if strings.HasSuffix(kind, "down") {
			l = down
		}
		wrap(l, func(ll *verifsim.Link, d []byte) []byte {
			if fire() {
				mark()
				if strings.HasPrefix(kind, "close") {
					// connection breaks: reader sees EOF, later writes fail
					w.Go("closer", nil, func() { ll.Close() })
					ll.Break(syscall.EPIPE)
				} else {
					ll.Break(io.ErrClosedPipe)
				}
				if l == up {
					brokeUp = true
				} else {
					brokeDown = true
				}
				return nil
			}
			return d
		})
	case "disk-slow-then-full":
		// one write of the receiving client takes seconds (decoded blocks pile up behind it), the next one fails
		d := &verifsim.DiskFaults{WriteErr: syscall.ENOSPC, ShortWrite: tp.Bool("c11.slowshort", 500)}
		w.Disk = d
		slowAt := 1 + tp.Draw("c11.slowat", 6)
		slowFor := time.Duration(2+tp.Draw("c11.slowfor", 6)) * time.Second
		d.OnWrite = func(call int, f *os.File) {
			if faultAt < 0 && call >= slowAt && verifsim.CurProc() == x.client {
				rc.fault("disk-slow")
				verifsim.Sleep(slowFor)
				d.FailWriteAt = call + 1
				mark()
			}
		}
	case "disk-write", "disk-short-write", "src-read-error", "src-shrink":
		d := &verifsim.DiskFaults{ReadErr: syscall.EIO, WriteErr: syscall.ENOSPC}
		if kind == "disk-short-write" {
			d.ShortWrite = true
		}
		w.Disk = d
		if strings.HasPrefix(kind, "disk") {
			d.OnWrite = func(call int, f *os.File) {
				if d.FailWriteAt == 0 && fire() {
					d.FailWriteAt = call
					mark()
				}
			}
		} else if kind == "src-read-error" {
			d.OnRead = func(call int, f *os.File) {
				if d.FailReadAt == 0 && fire() {
					d.FailReadAt = call
					mark()
				}
			}
		} else {
			// a directory sent as one archive stream reads its files without going through the per-file reader:
			// there the file shrinks at a tape-chosen message instead (the largest file still present)
			shrinkAny := func(l *verifsim.Link, dd []byte) []byte {
				if faultAt < 0 && cfg.dirMode && fire() {
					var victim string
					var vsize int64
					for _, sp := range o.srcPaths {
						filepath.Walk(sp, func(p string, info os.FileInfo, err error) error {
							if err == nil && info.Mode().IsRegular() && info.Size() > vsize {
								victim, vsize = p, info.Size()
							}
							return nil
						})
					}
					if victim != "" && vsize > 1 {
						shrunkPath = victim
						shrunkOrig, _ = os.ReadFile(victim)
						os.Truncate(victim, vsize/2)
						mark()
					}
				}
				return dd
			}
			wrap(up, shrinkAny)
			wrap(down, shrinkAny)
			d.OnRead = func(call int, f *os.File) {
				if faultAt < 0 && fire() {
					if st, err := f.Stat(); err == nil && st.Size() > 1 {
						pos, _ := f.Seek(0, io.SeekCurrent)
						if pos < st.Size() {
							os.Truncate(f.Name(), pos+(st.Size()-pos)/2)
							mark()
						}
					}
				}
			}
		}
	case "client-stop-delete":
		// the embedding program stops the transfer and asks for deletion, whether or not this side has anything
		// of its own to delete: it ends at once, and it tells its peer
		h := func(l *verifsim.Link, dd []byte) []byte {
			if fire() {
				mark()
				w.Go("api", x.client, func() { x.filter.StopTransferringFiles(true) })
			}
			return dd
		}
		wrap(up, h)
		wrap(down, h)
	case "src-shrink-at-name":
		// the file is cut behind the sender's back right when its name goes out: before anything of it was read,
		// in the resume (prefix hash) phase when the destination holds an older version
		nameLink := x.downLast()
		if cfg.upload {
			nameLink = x.up[0]
		}
		wrap(nameLink, func(l *verifsim.Link, dd []byte) []byte {
			if faultAt >= 0 || !bytes.HasPrefix(dd, []byte("#NAME:")) || !actSeen || !tp.Bool("c11.nameshrink", 500) {
				return dd
			}
			end := bytes.IndexAny(dd, "!\n")
			if end < 0 {
				return dd
			}
			raw, err := vDecode(string(dd[6:end]))
			if err != nil {
				return dd
			}
			var rel []string
			var m map[string]any
			if json.Unmarshal(raw, &m) == nil && m != nil {
				if lst, ok := m["path_name"].([]any); ok {
					for _, e := range lst {
						rel = append(rel, fmt.Sprint(e))
					}
				}
			} else {
				rel = []string{string(raw)}
			}
			if len(rel) == 0 {
				return dd
			}
			for _, sp := range o.srcPaths {
				if filepath.Base(sp) != rel[0] {
					continue
				}
				p := filepath.Join(append([]string{sp}, rel[1:]...)...)
				if st, err := os.Stat(p); err == nil && st.Mode().IsRegular() && st.Size() > 1 {
					shrunkPath = p
					shrunkOrig, _ = os.ReadFile(p)
					os.Truncate(p, st.Size()/2)
					mark()
				}
				break
			}
			return dd
		})
	case "stall-client", "stall-server":
		h := func(l *verifsim.Link, d []byte) []byte {
			if fire() {
				mark()
				stallEnd = w.Now() + stallD
				if kind == "stall-client" {
					x.client.Stall(stallD)
				} else {
					x.server.Stall(stallD)
				}
			}
			return d
		}
		wrap(up, h)
		wrap(down, h)
	}
	rc.res.ClassKey = fmt.Sprintf("%s %s hop%d", cfg.key(), kind, hop)
	rc.res.Scenario["fault"] = kind
	x.start()
	w.Run(x.finished)
	rep := x.report()
	rc.res.Scenario["client_fail"] = vClip(rep.clientFail, 160)
	rc.res.Scenario["server_fail"] = vClip(rep.serverFail, 160)
	rc.res.Scenario["fault_at"] = faultAt.String()
	rc.res.Scenario["enum_places"] = x.firerPlaces()
	if faultAt < 0 {
		vCheckFidelity(rc, x, rep, before, false)
		rc.res.Nontrivial = false
		return
	}
	if rc.w.StepCap {
		return
	}
	ref := faultAt
	if stallEnd > ref {
		ref = stallEnd
	}
	if resumedAt > ref {
		ref = resumedAt
	}
	rc.res.Scenario["resumed_at"] = resumedAt.String()
	// before the client has the CFG it uses the default 20 s timeout
	tb := T
	if tb < 20*time.Second {
		tb = 20 * time.Second
	}
	bound := 3*tb + 10*time.Second
	clientBusy := x.filter.IsTransferringFiles()
	if !rep.serverExited || clientBusy {
		rc.violate("hang", "C11:hang:"+kind+x.hangClass(), "%s at %v: a role never returned (server exited=%v, client transferring=%v, quiesced=%v, sim=%v, timeout=%v); client fail=%q server fail=%q parked=%s",
			kind, faultAt, rep.serverExited, clientBusy, w.Quiesced, w.Now(), T, vClip(rep.clientFail, 100), vClip(rep.serverFail, 100), vClip(w.ParkedSummary(), 400))
		return
	}
	rc.res.Scenario["client_done"] = x.clientDoneAt.String()
	rc.res.Scenario["server_done"] = x.serverDoneAt.String()
	if x.serverDoneAt > ref+bound {
		rc.violate("late", "C11:late-server:"+kind, "%s at %v (reference %v): the server returned only at %v, more than 3*max(T,20s)+10s (T=%v) later", kind, faultAt, ref, x.serverDoneAt, T)
		return
	}
	if x.clientDoneAt > ref+bound {
		rc.violate("late", "C11:late-client:"+kind, "%s at %v (reference %v): the client returned only at %v, more than 3*max(T,20s)+10s (T=%v) later", kind, faultAt, ref, x.clientDoneAt, T)
		return
	}
	// a side that reports success must have the files right (a file that was cut behind the reader's back is
	// compared as it was while it was read: if the cut came after its last byte had been taken, success is right)
	if shrunkPath != "" {
		os.WriteFile(shrunkPath, shrunkOrig, 0644)
	}
	vCheckFidelity(rc, x, rep, before, false)
	if rc.res.Class == "violation" {
		rc.res.Sig = strings.Replace(rc.res.Sig, "C01:", "C11:", 1)
		return
	}
	// a side that failed and can still talk tells its peer why (unless its error was the peer's message)
	serverSpoke := vFindMsg(rep.serverMsgs, "fail", "FAIL") != nil
	clientSpoke := vFindMsg(rep.clientMsgs, "fail", "FAIL") != nil
	clientExit := vFindMsg(rep.clientMsgs, "EXIT") != nil
	// (the peer's message excuses a side only if it was written before that side ended)
	serverSpokeFirst := serverSpoke
	if serverSpoke && x.clientDoneAt > 0 {
		if at := vFirstFailAt(x.downLast(), x.markDown); at >= 0 && at > x.clientDoneAt {
			serverSpokeFirst = false
		}
	}
	if !rep.clientOK && !clientSpoke && !clientExit && !brokeUp && !serverSpokeFirst && x.sawClientBusy {
		rc.violate("silent-failure", "C11:client-silent:"+kind, "%s: the client ended without success and without telling the server why (no fail/FAIL/EXIT line written, none received)", kind)
		return
	}
	if !rep.serverOK && !serverSpoke && !brokeDown && !clientSpoke && !clientExit {
		rc.violate("silent-failure", "C11:server-silent:"+kind, "%s: the server ended without success and without telling the client why; server output tail %q", kind, rep.serverText)
		return
	}
	// no worker of the failed transfer is left running on the (long-lived) client
	x.settle(2*T + 2*time.Second)
	if leaked := vLeakedWorkers(w, x.client); len(leaked) > 0 {
		rc.violate("leak", "C11:leak:"+vLeakSig(leaked), "%s at %v: %d client goroutines are still inside transfer code %v after both roles returned and a grace period of 2T+2s: %v",
			kind, faultAt, len(leaked), T, leaked)
		return
	}
	rc.res.Nontrivial = true
	rc.res.Scenario["outcome"] = fmt.Sprintf("client_ok=%v server_ok=%v", rep.clientOK, rep.serverOK)
}

func vLeakSig(leaked []string) string {
	seen := map[string]bool{}
	var names []string
	for _, l := range leaked {
		if i := strings.LastIndex(l, "."); i >= 0 {
			l = l[i+1:]
		}
		l = strings.Trim(l, "()*")
		if !seen[l] {
			seen[l] = true
			names = append(names, l)
		}
	}
	sortStrings(names)
	return strings.Join(names, "+")
}

func sortStrings(s []string) {
	for i := range s {
		for j := i + 1; j < len(s); j++ {
			if s[j] < s[i] {
				s[i], s[j] = s[j], s[i]
			}
		}
	}
}

// vFirstFailAt: when the first fail line was written to l (from offset mark on), or -1.
func vFirstFailAt(l *verifsim.Link, mark int) time.Duration {
	sent, _, evs := l.Snapshot()
	for _, e := range evs {
		if e.Off < mark || e.Off+e.N > len(sent) {
			continue
		}
		c := sent[e.Off : e.Off+e.N]
		if bytes.Contains(c, []byte("#fail:")) || bytes.Contains(c, []byte("#FAIL:")) {
			return e.T
		}
	}
	return -1
}
