package trzsz

import (
	"bytes"
	"fmt"
	"os"
	"path/filepath"
	"regexp"
	"strings"
	"time"
)

// vC06Relay: the trigger detector in relay mode (inside and outside tmux) in front of a client-mode detector,
// fed sequences of generated triggers with redraws. A relay forwards a trigger in a form the real client
// still recognises, marked as relayed; inside tmux the ids it hands on are ones a redraw of which starts
// nothing, neither on the relay nor on the client behind it.
var vTrigShape = regexp.MustCompile(`::TRZSZ:TRANSFER:([SRD]):(\d+\.\d+\.\d+)(?::(\d+))?(?::(\d+))?`)

func vVerStr(v *trzszVersion) string {
	if v == nil {
		return "<nil>"
	}
	return fmt.Sprintf("%d.%d.%d", v[0], v[1], v[2])
}

func vC06Relay(rc *runCtx) {
	tp := rc.tape
	tmux := tp.Bool("c06r.tmux", 500)
	tunnel := tp.Bool("c06r.tunnel", 400)
	relay := newTrzszDetector(true, tmux)
	client := newTrzszDetector(false, false)
	n := 3 + tp.Draw("c06r.items", 12)
	var fed []*vTrig
	var log []string
	started := map[string]int{} // id as the client saw it -> transfers started there
	rc.res.ClassKey = fmt.Sprintf("relaymode tmux=%v tunnel=%v", tmux, tunnel)
	for i := 0; i < n; i++ {
		var t *vTrig
		redraw := len(fed) > 0 && tp.Bool("c06r.redraw", 350)
		if redraw {
			t = fed[tp.Draw("c06r.which", len(fed))]
		} else {
			t = vGenTrigger(tp, i)
			fed = append(fed, t)
		}
		chunk := append([]byte{}, t.text...)
		out, trig := relay.detectTrzsz(append([]byte{}, chunk...), tunnel)
		log = append(log, fmt.Sprintf("%s mode=%s id=%q redraw=%v -> relay trigger=%v", vClip(string(t.text[len(t.prefix):]), 50), t.mode, t.id, redraw, trig != nil))
		rc.res.Scenario["items"] = log
		m := vTrigShape.FindSubmatch(out)
		if m == nil {
			rc.violate("relay", "C06:relay-forward-unrecognisable", "item %d: what the relay forwards no longer contains a trigger: %s", i, vQuote(out, 120))
			return
		}
		fwdID := string(m[3])
		dedupable := len(t.id) > 6 && !(len(t.id) == 13 && strings.HasSuffix(t.id, "00"))
		if tmux && len(t.id) >= 13 {
			dedupable = true // inside tmux the relay hands on ids of the tmux kind
		}
		if !redraw || !dedupable {
			if trig == nil {
				if redraw {
					continue // a redraw of an id that is not of the tmux/Windows kind: not asserted either way
				}
				rc.violate("relay", "C06:relay-missed-trigger", "item %d: the relay (tmux=%v) did not react to a fresh trigger %s", i, tmux, vQuote(t.text, 100))
				return
			}
			if string(trig.mode) != t.mode || vVerStr(trig.version) != t.version {
				rc.violate("relay", "C06:relay-wrong-trigger", "item %d: trigger mode %s version %s was taken as mode %c version %v", i, t.mode, t.version, trig.mode, trig.version)
				return
			}
			wantPort := 0
			fmt.Sscan(t.port, &wantPort)
			if trig.tunnelPort != wantPort {
				rc.violate("relay", "C06:relay-wrong-port", "item %d: port %q was taken as %d", i, t.port, trig.tunnelPort)
				return
			}
			// marked as relayed, directly after the trigger's own digits
			loc := vTrigShape.FindIndex(out)
			if !bytes.HasPrefix(out[loc[1]:], []byte("#R")) {
				rc.violate("relay", "C06:relay-not-marked", "item %d: the forwarded trigger is not marked as relayed: %s", i, vQuote(out[loc[0]:], 80))
				return
			}
			// the id handed on is the one the relay itself goes by, and differs from the printed one at most in
			// the role digit
			if trig.uniqueID != fwdID {
				rc.violate("relay", "C06:relay-id-disagrees", "item %d: the relay goes by id %q but forwards %q", i, trig.uniqueID, fwdID)
				return
			}
			if len(fwdID) != len(t.id) || (len(t.id) > 0 && (fwdID[:len(fwdID)-2] != t.id[:len(t.id)-2] || fwdID[len(fwdID)-1] != t.id[len(t.id)-1])) {
				rc.violate("relay", "C06:relay-id-changed", "item %d: id %q was forwarded as %q", i, t.id, fwdID)
				return
			}
			if tmux && len(fwdID) == 13 && strings.HasSuffix(fwdID, "00") {
				rc.violate("relay", "C06:relay-tmux-id-not-retagged", "item %d: a relay inside tmux handed on the plain id %q of a mode %s trigger: a redraw by tmux would start a second transfer", i, fwdID, t.mode)
				return
			}
		} else if trig != nil {
			rc.violate("relay", "C06:relay-redraw-started", "item %d: a redraw of id %q (mode %s, relay in tmux=%v) started another transfer on the relay", i, t.id, t.mode, tmux)
			return
		}
		// the client behind the relay
		cout, ctrig := client.detectTrzsz(append([]byte{}, out...), tunnel)
		if ctrig != nil {
			started[ctrig.uniqueID]++
			if trig == nil {
				rc.violate("relay", "C06:client-started-on-suppressed", "item %d: the relay suppressed a redraw of %q but the client behind it started a transfer", i, t.id)
				return
			}
			if ctrig.mode != trig.mode || ctrig.uniqueID != trig.uniqueID || ctrig.tunnelPort != trig.tunnelPort || vVerStr(ctrig.version) != vVerStr(trig.version) {
				rc.violate("relay", "C06:client-disagrees", "item %d: relay saw mode %c id %q port %d, the client behind it mode %c id %q port %d", i, trig.mode, trig.uniqueID, trig.tunnelPort, ctrig.mode, ctrig.uniqueID, ctrig.tunnelPort)
				return
			}
			if dedupable && started[ctrig.uniqueID] > 1 {
				rc.violate("relay", "C06:client-redraw-started", "item %d: id %q started %d transfers on the client behind the relay", i, ctrig.uniqueID, started[ctrig.uniqueID])
				return
			}
			// what the client shows locally starts nothing further along
			if _, again := newTrzszDetector(false, false).detectTrzsz(append([]byte{}, cout...), tunnel); again != nil {
				rc.violate("relay", "C06:local-form-triggers", "item %d: the form shown locally still triggers a wrapper further along: %s", i, vQuote(cout, 100))
				return
			}
		} else if trig != nil {
			rc.violate("relay", "C06:client-missed-relayed", "item %d: the client did not recognise the relayed trigger %s", i, vQuote(out, 120))
			return
		}
	}
	rc.res.Nontrivial = true
}

// vC06RelayCC: whole transfers where the server's pane belongs to a tmux in control mode behind one or two
// relays, all with tunnel connectors. Every party can reach ports on the next machine only, so the one transfer the
// trigger announces runs only if each relay takes the framed trigger, puts its own port in it and marks it as
// relayed. Nothing may ever be typed into tmux's command channel.
func vC06RelayCC(rc *runCtx) {
	tp := rc.tape
	cfg := vDrawConfig(tp, false)
	cfg.timeout = 20
	cfg.trigVersion = ""
	cfg.protocol = 0
	cfg.tunnel = true
	cfg.srvTmux = "control"
	cfg.relays = 1 + tp.Draw("c06cc.relays", 2)
	for i := 0; i < cfg.relays; i++ {
		cfg.relayTmux = append(cfg.relayTmux, []string{"", "normal"}[tp.Pick("c06cc.rtmux", 3, 1)])
	}
	src := filepath.Join(rc.dir, "src")
	dst := filepath.Join(rc.dir, "dst")
	os.MkdirAll(dst, 0755)
	spec := vGenSources(rc, src, 2, cfg.dirMode, 60000, !cfg.overwrite)
	o := cfg.opts()
	o.srcPaths, o.dstDir = spec.paths, dst
	o.srvCCFrame = true
	o.profile = transportProfile{segPm: 200, coalPm: 100, latPm: 300, latMax: 20 * time.Millisecond}
	o.simCap = 10 * time.Minute
	rc.res.ClassKey = "relaycc " + cfg.key()
	rc.res.Scenario["config"] = cfg.key()
	rc.res.Scenario["flags"] = strings.Join(o.flags, " ")
	before := vSnapshot(dst)
	x := newXferWorld(rc, o)
	x.start()
	rc.w.Run(x.finished)
	rep := x.report()
	if len(x.ccTyped) > 0 {
		rc.violate("relay", "C06:control-mode-typed", "with the server's pane in tmux control mode behind %d relay(s) with tunnel connectors, %s was typed into tmux's command channel: the framed trigger did not start the one tunnel transfer it announces", cfg.relays, vQuote(x.ccTyped, 100))
		return
	}
	vCheckFidelity(rc, x, rep, before, true)
	if rc.res.Class == "ok" && !rep.tunnelUsed {
		rc.violate("relay", "C06:control-mode-no-tunnel", "the transfer announced by a control-mode framed trigger did not run through the tunnel")
	}
}

// vC06SlowWrite: whole transfers in which the client's writes towards the server are slow to return (a slow pty
// or ssh channel: the bytes are on their way, and may be answered, before the call is back). The one transfer the
// trigger announces still runs: the answer to the ACT finds the transfer it belongs to.
func vC06SlowWrite(rc *runCtx) {
	tp := rc.tape
	cfg := vDrawConfig(tp, false)
	cfg.timeout = 20
	cfg.trigVersion = ""
	src := filepath.Join(rc.dir, "src")
	dst := filepath.Join(rc.dir, "dst")
	os.MkdirAll(dst, 0755)
	spec := vGenSources(rc, src, 2, cfg.dirMode, 40000, !cfg.overwrite)
	o := cfg.opts()
	o.srcPaths, o.dstDir = spec.paths, dst
	o.profile = transportProfile{segPm: 200, coalPm: 100}
	o.simCap = 10 * time.Minute
	rc.res.ClassKey = "slowwrite " + cfg.key()
	rc.res.Scenario["config"] = cfg.key()
	rc.res.Scenario["flags"] = strings.Join(o.flags, " ")
	before := vSnapshot(dst)
	x := newXferWorld(rc, o)
	x.up[0].ReturnLag = time.Duration(2+tp.Draw("c06sw.lag", 150)) * time.Millisecond
	rc.res.Scenario["write_return_lag"] = x.up[0].ReturnLag.String()
	rc.fault("client-writes-slow-to-return")
	x.start()
	rc.w.Run(x.finished)
	rep := x.report()
	vCheckFidelity(rc, x, rep, before, true)
	if rc.res.Class == "violation" {
		rc.res.Sig = strings.Replace(rc.res.Sig, "C01:", "C06:slowwrite:", 1)
		rc.res.Msg = "client writes slow to return (" + x.up[0].ReturnLag.String() + "): " + rc.res.Msg
	}
	// the handshake lines are the transfer's, never the terminal's
	if t, _, _ := x.term.Snapshot(); rc.res.Class == "ok" && (bytes.Contains(t, []byte("#CFG:")) || bytes.Contains(t, []byte("#NUM:"))) {
		rc.violate("started", "C06:protocol-lines-on-terminal", "protocol lines of the announced transfer were shown on the terminal instead of reaching the transfer")
	}
}
