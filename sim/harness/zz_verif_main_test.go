package trzsz

// Worker entry point of the deterministic-simulation harness (see /verif/DESIGN.md).
// This file is copied into a rewritten scratch copy of the repository; it is never part of /repo.

import (
	"bufio"
	"encoding/json"
	"fmt"
	"os"
	"os/signal"
	"path/filepath"
	"runtime"
	"runtime/debug"
	"sort"
	"strings"
	"testing"
	"testing/synctest"
	"time"

	"github.com/trzsz/trzsz-go/internal/verifsim"
)

type vJob struct {
	ID     int               `json:"id"`
	Prop   string            `json:"prop"`
	Seed   uint64            `json:"seed"`
	Idx    int               `json:"idx"`
	Tier   string            `json:"tier"`
	Tape   []uint32          `json:"tape,omitempty"`
	Replay bool              `json:"replay,omitempty"`
	Trace  bool              `json:"trace,omitempty"`
	Params map[string]string `json:"params,omitempty"`
}

type vResult struct {
	ID         int            `json:"id"`
	Prop       string         `json:"prop"`
	Seed       uint64         `json:"seed"`
	Idx        int            `json:"idx"`
	Class      string         `json:"class"` // ok | violation | inconclusive | error
	Kind       string         `json:"kind,omitempty"`
	Msg        string         `json:"msg,omitempty"`
	Sig        string         `json:"sig,omitempty"` // stable signature for known-findings matching
	Steps      int            `json:"steps"`
	SimMs      int64          `json:"sim_ms"`
	WallUs     int64          `json:"wall_us"`
	TraceHash  string         `json:"trace_hash"`
	Nontrivial bool           `json:"nontrivial"`
	ClassKey   string         `json:"class_key,omitempty"` // scenario class for distinct counting
	Scenario   map[string]any `json:"scenario,omitempty"`
	Faults     map[string]int `json:"faults,omitempty"`
	Probes     map[string]int `json:"probes,omitempty"`
	Switches   int            `json:"switch_pairs"`
	Tape       []uint32       `json:"tape,omitempty"`
	TapeLen    int            `json:"tape_len"`
	TapeHash   string         `json:"tape_hash"`
	Trace      []string       `json:"trace,omitempty"`
	Detail     []string       `json:"detail,omitempty"`
}

type runCtx struct {
	t    *testing.T
	job  *vJob
	tape *verifsim.Tape
	w    *verifsim.World
	dir  string
	res  *vResult
}

func (rc *runCtx) violate(kind, sig, format string, a ...any) {
	if rc.res.Class == "violation" {
		rc.res.Detail = append(rc.res.Detail, kind+": "+fmt.Sprintf(format, a...))
		return
	}
	rc.res.Class = "violation"
	rc.res.Kind = kind
	rc.res.Sig = sig
	rc.res.Msg = fmt.Sprintf(format, a...)
}

func (rc *runCtx) inconclusive(format string, a ...any) {
	if rc.res.Class == "violation" {
		return
	}
	rc.res.Class = "inconclusive"
	rc.res.Msg = fmt.Sprintf(format, a...)
}

func (rc *runCtx) detail(format string, a ...any) {
	if len(rc.res.Detail) < 60 {
		rc.res.Detail = append(rc.res.Detail, fmt.Sprintf(format, a...))
	}
}

func (rc *runCtx) fault(kind string) {
	if rc.res.Faults == nil {
		rc.res.Faults = map[string]int{}
	}
	rc.res.Faults[kind]++
}

func (rc *runCtx) param(k, def string) string {
	if v, ok := rc.job.Params[k]; ok {
		return v
	}
	return def
}

// properties whose statement excludes hangs: a livelock that eats the step budget counts against them
var vHangProps = map[string]bool{"C01": true, "C02": true, "C10": true, "C11": true, "C18": true}

// scenario bodies run inside the bubble, on its root goroutine.
var vScenarios = map[string]func(rc *runCtx){}

func vRunJob(t *testing.T, job *vJob, tmpRoot string) *vResult {
	res := &vResult{ID: job.ID, Prop: job.Prop, Seed: job.Seed, Idx: job.Idx, Class: "ok", Scenario: map[string]any{}}
	fn := vScenarios[job.Prop]
	if fn == nil {
		res.Class = "error"
		res.Msg = "unknown scenario " + job.Prop
		return res
	}
	var tape *verifsim.Tape
	if job.Replay {
		tape = verifsim.ReplayTape(job.Tape)
	} else {
		tape = verifsim.NewTape(verifsim.Mix(job.Seed, vHash(job.Prop), uint64(job.Idx)))
	}
	tape.Label = job.Trace
	if dp := job.Params["tapedump"]; dp != "" {
		if f, err := os.OpenFile(dp, os.O_CREATE|os.O_WRONLY|os.O_TRUNC, 0644); err == nil {
			tape.Dump = f
			defer f.Close()
		}
	}
	dir := filepath.Join(tmpRoot, "run")
	os.RemoveAll(dir)
	if err := os.MkdirAll(dir, 0755); err != nil {
		res.Class = "error"
		res.Msg = err.Error()
		return res
	}
	defer os.RemoveAll(dir)
	// every run starts in a working directory of its own, distinct from the temp directory: a relative path
	// means something there (the simulated processes share the one real working directory)
	if cwd0, err := os.Getwd(); err == nil {
		wd := filepath.Join(dir, "cwd")
		if os.MkdirAll(wd, 0755) == nil && os.Chdir(wd) == nil {
			defer os.Chdir(cwd0)
		}
	}
	rc := &runCtx{t: t, job: job, tape: tape, dir: dir, res: res}
	start := time.Now()
	gcPct := -1
	if job.Params["slowdisk"] == "1" {
		// megabytes queue up behind a slow disk for minutes of simulated time: with the collector off such a run
		// alone outgrows the worker's address-space limit
		gcPct = 100
	}
	old := debug.SetGCPercent(gcPct)
	func() {
		defer func() {
			if r := recover(); r != nil {
				msg := fmt.Sprint(r)
				if strings.Contains(msg, "deadlock: main bubble goroutine has exited") {
					return
				}
				buf := make([]byte, 1<<16)
				n := runtime.Stack(buf, false)
				res.Class = "error"
				res.Msg = "harness panic: " + msg + "\n" + string(buf[:n])
			}
		}()
		synctest.Test(t, func(t *testing.T) {
			vResetGlobals()
			rc.w = verifsim.NewWorld(tape)
			rc.w.TraceOn = job.Trace
			defer rc.w.Close()
			func() {
				defer func() {
					if r := recover(); r != nil {
						buf := make([]byte, 1<<14)
						n := runtime.Stack(buf, false)
						res.Class = "error"
						res.Msg = "harness panic: " + fmt.Sprint(r) + "\n" + string(buf[:n])
					}
				}()
				fn(rc)
			}()
			res.Steps = rc.w.Steps
			res.SimMs = rc.w.Now().Milliseconds()
			res.TraceHash = rc.w.TraceHash()
			res.Switches = len(rc.w.SwitchPairs)
			if len(rc.w.Probes) > 0 {
				res.Probes = rc.w.Probes
			}
			if job.Trace {
				res.Trace = rc.w.Trace
			}
			if rc.w.StepCap && res.Class == "ok" {
				res.Class = "inconclusive"
				res.Msg = "step cap reached"
				// ... unless the steps were burnt by one task going round and round at the same place without the
				// clock moving (the scheduler noted it): for the properties that say "never a hang" that is one
				if vHangProps[job.Prop] {
					if ll := rc.w.Livelock(3000, 24*time.Hour); ll != "" {
						res.Class, res.Kind = "violation", "hang"
						res.Sig = job.Prop + ":hang:livelock:same-message-forever"
						res.Msg = fmt.Sprintf("the run used up its %d scheduling steps in %v of simulated time and neither role had ended; %s", rc.w.Steps, rc.w.Now(), ll)
					}
					for k := range rc.w.Probes {
						if res.Class == "violation" {
							break
						}
						if strings.HasPrefix(k, "busyloop:") {
							res.Class, res.Kind = "violation", "hang"
							res.Sig = job.Prop + ":hang:livelock:" + strings.TrimPrefix(k, "busyloop:")
							res.Msg = fmt.Sprintf("the run used up its %d scheduling steps with a task spinning at %s (no sleep, no blocking) and neither role had ended: a livelock; parked=%s", rc.w.Steps, strings.TrimPrefix(k, "busyloop:"), vClip(rc.w.ParkedSummary(), 300))
							break
						}
					}
				}
			}
		})
	}()
	debug.SetGCPercent(old)
	runtime.GC()
	res.WallUs = time.Since(start).Microseconds()
	res.TapeLen = len(tape.Rec)
	{
		var h uint64 = 1469598103934665603
		for _, v := range tape.Rec {
			h = (h ^ uint64(v)) * 1099511628211
		}
		res.TapeHash = fmt.Sprintf("%016x", h)
	}
	if res.Class == "violation" || job.Trace || job.Replay {
		res.Tape = tape.Rec
	}
	if job.Trace && len(tape.Labels) == len(tape.Rec) {
		for i, l := range tape.Labels {
			if i < 400 {
				res.Detail = append(res.Detail, fmt.Sprintf("tape[%d] %s=%d", i, l, tape.Rec[i]))
			}
		}
	}
	return res
}

func vHash(s string) uint64 {
	var h uint64 = 1469598103934665603
	for i := 0; i < len(s); i++ {
		h = (h ^ uint64(s[i])) * 1099511628211
	}
	return h
}

// TestVerifWorker processes the jobs listed in $VERIF_JOBS and appends one JSON result per line
// to $VERIF_OUT. "BEGIN <id>" / "END <id>" lines in $VERIF_OUT.progress let the driver attribute
// a crash of this process to the job that was running.
func TestVerifWorker(t *testing.T) {
	jobsPath := os.Getenv("VERIF_JOBS")
	if jobsPath == "" {
		t.Skip("VERIF_JOBS not set")
	}
	// os/signal must be initialised before the first bubble (promptui calls signal.Notify inside one)
	dummy := make(chan os.Signal, 1)
	signal.Notify(dummy, os.Interrupt)
	signal.Stop(dummy)

	outPath := os.Getenv("VERIF_OUT")
	out, err := os.OpenFile(outPath, os.O_CREATE|os.O_WRONLY|os.O_APPEND, 0644)
	if err != nil {
		t.Fatal(err)
	}
	defer out.Close()
	prog, err := os.OpenFile(outPath+".progress", os.O_CREATE|os.O_WRONLY|os.O_APPEND, 0644)
	if err != nil {
		t.Fatal(err)
	}
	defer prog.Close()
	tmpRoot := filepath.Join(os.TempDir(), "w")
	os.RemoveAll(tmpRoot)
	if err := os.MkdirAll(tmpRoot, 0755); err != nil {
		t.Fatal(err)
	}
	defer os.RemoveAll(tmpRoot)

	f, err := os.Open(jobsPath)
	if err != nil {
		t.Fatal(err)
	}
	defer f.Close()
	sc := bufio.NewScanner(f)
	sc.Buffer(make([]byte, 1<<20), 1<<28)
	for sc.Scan() {
		line := strings.TrimSpace(sc.Text())
		if line == "" {
			continue
		}
		var job vJob
		if err := json.Unmarshal([]byte(line), &job); err != nil {
			t.Fatalf("bad job: %v", err)
		}
		fmt.Fprintf(prog, "BEGIN %d\n", job.ID)
		res := vRunJob(t, &job, tmpRoot)
		b, _ := json.Marshal(res)
		out.Write(append(b, '\n'))
		fmt.Fprintf(prog, "END %d\n", job.ID)
	}
}

func vSortedKeys[V any](m map[string]V) []string {
	ks := make([]string, 0, len(m))
	for k := range m {
		ks = append(ks, k)
	}
	sort.Strings(ks)
	return ks
}

// vResetGlobals restores package-level state that a real process would start with.
var vOrigClipboard = writeToClipboard

func vResetGlobals() {
	onExitFuncs = nil
	writeToClipboard = vOrigClipboard
	vSetHashStep(10 * 1024 * 1024)
}

// enumeration support: the thorough tiers of C02/C10/C11/C18 run every base scenario once without
// a fault to count the places where one could be put, and then once per (place, kind). A job in
// enumeration mode carries the place in its parameters; the tape draws that would have chosen it
// are still made (and ignored) so that everything before the fault is identical to the base run.
func (rc *runCtx) enumInt(name string) (int, bool) {
	v, ok := rc.job.Params[name]
	if !ok {
		return 0, false
	}
	var n int
	if _, err := fmt.Sscan(v, &n); err != nil {
		return 0, false
	}
	return n, true
}

// vFirer decides at which candidate place a fault/stop/pause happens.
type vFirer struct {
	rc    *runCtx
	label string
	pm    int
	count int
	fired bool
	once  bool
}

func (f *vFirer) fire() bool {
	if f.once && f.fired {
		return false
	}
	idx := f.count
	f.count++
	sampled := f.rc.tape.Bool(f.label, f.pm)
	if k, ok := f.rc.enumInt("enum_k"); ok {
		sampled = k == idx // k < 0: count only
	}
	if sampled {
		f.fired = true
	}
	return sampled
}
