package trzsz

import (
	"bytes"
	"fmt"
	"math/rand"
	"os"
	"path/filepath"
	"strings"
	"time"

	"github.com/trzsz/trzsz-go/internal/verifsim"
)

func init() {
	vScenarios["C03"] = vScenarioC03
}

type vReadOp struct {
	kind string // line | junk | bin | win
	n    int
}

type vReadRes struct {
	data []byte
	err  string
}

// vRefParse is the reference parser: it applies ops to the concatenated stream and returns the
// results that are complete within stream[:avail]; consumed is the offset after the last complete
// result. It encodes only what the statement says: protocol lines end at LF (an empty line is none); the junk-tolerant read joins
// lines whose LF is preceded by CR (dropping the CR LF); a sized read takes exactly n bytes; a
// Ctrl-C inside a line interrupts.
func vRefParse(stream []byte, ops []vReadOp, avail int) (res []vReadRes, consumed int) {
	s := stream[:avail]
	pos := 0
	for _, op := range ops {
		switch op.kind {
		case "bin":
			if pos+op.n > len(s) {
				return res, pos
			}
			res = append(res, vReadRes{data: append([]byte(nil), s[pos:pos+op.n]...)})
			pos += op.n
		case "line", "junk":
			var acc []byte
			p := pos
			for {
				nl := bytes.IndexByte(s[p:], '\n')
				if nl < 0 {
					// incomplete; but a Ctrl-C already received in this line interrupts at once
					if bytes.IndexByte(s[p:], 0x03) >= 0 {
						res = append(res, vReadRes{err: "Interrupted"})
						return res, -1
					}
					return res, pos
				}
				seg := s[p : p+nl]
				if bytes.IndexByte(seg, 0x03) >= 0 {
					res = append(res, vReadRes{err: "Interrupted"})
					return res, -1
				}
				acc = append(acc, seg...)
				p += nl + 1
				if op.kind == "junk" && len(acc) > 0 && acc[len(acc)-1] == '\r' {
					acc = acc[:len(acc)-1]
					continue
				}
				if len(acc) == 0 {
					// an empty line is not a protocol line (every protocol line begins with its marker): it is
					// passed over, like the line feed of a trigger line that arrives in a read of its own
					pos = p
					continue
				}
				break
			}
			res = append(res, vReadRes{data: acc})
			pos = p
		case "win":
			// clean Windows framing: letters up to '!', one optional LF after it
			ex := bytes.IndexByte(s[pos:], '!')
			if ex < 0 {
				return res, pos
			}
			var acc []byte
			for _, c := range s[pos : pos+ex] {
				if isTrzszLetterRef(c) {
					acc = append(acc, c)
				}
			}
			p := pos + ex + 1
			if len(acc) == 0 {
				pos = p
				continue
			}
			res = append(res, vReadRes{data: acc})
			pos = p
		}
	}
	return res, pos
}

func vMax0(a int) int {
	if a < 0 {
		return 0
	}
	return a
}

func isTrzszLetterRef(b byte) bool {
	return (b >= 'a' && b <= 'z') || (b >= 'A' && b <= 'Z') || (b >= '0' && b <= '9') || b == '#' || b == ':' || b == '+' || b == '/' || b == '='
}

// vRunBufferCase feeds stream in the given segmentation to a real trzszBuffer while a consumer
// issues ops; returns the results and a promptness complaint if any.
func vRunBufferCase(rc *runCtx, stream []byte, cuts []int, ops []vReadOp, pauses bool) (got []vReadRes, late string) {
	w := rc.w
	tp := rc.tape
	b := newTrzszBuffer()
	delivered := 0
	nres := 0
	vLastRestValid = false
	consumerDone := false
	w.Go("consumer", nil, func() {
		for _, op := range ops {
			var data []byte
			var err error
			switch op.kind {
			case "line":
				data, err = b.readLine(false, nil)
			case "junk":
				data, err = b.readLine(true, nil)
			case "bin":
				data, err = b.readBinary(op.n, nil)
			case "win":
				data, err = b.readLineOnWindows(nil)
			}
			r := vReadRes{data: append([]byte(nil), data...)}
			if err != nil {
				r.err = err.Error()
			}
			got = append(got, r)
			nres = len(got)
			if err != nil {
				break
			}
		}
		consumerDone = true
	})
	producerDone := false
	w.Go("producer", nil, func() {
		prev := 0
		bounds := append(append([]int{}, cuts...), len(stream))
		for _, c := range bounds {
			if c <= prev {
				continue
			}
			b.addBuffer(append([]byte(nil), stream[prev:c]...))
			prev = c
			delivered = c
			if pauses && tp.Bool("c03.pause", 300) {
				before := delivered
				verifsim.Sleep(time.Millisecond)
				// everything that could run has run: what was complete must have been returned
				want, _ := vRefParse(stream, ops, before)
				if late == "" && nres < len(want) && !consumerDone {
					late = fmt.Sprintf("after %d of %d bytes had been delivered and the world had gone quiet, read #%d (%s) was still waiting although its answer %q was complete",
						before, len(stream), nres, ops[nres].kind, vClipB(want[nres].data, 40))
				}
			}
		}
		producerDone = true
	})
	w.Run(func() bool { return producerDone && consumerDone })
	if !consumerDone {
		// the consumer may legitimately still wait for bytes that never come: stop the buffer
		b.stopBuffer()
		w.Run(func() bool { return consumerDone })
	} else if len(got) == len(ops) && (len(got) == 0 || got[len(got)-1].err == "") {
		// every read was answered: what is left in the buffer is handed over (as a relay does after its handshake
		// line) and must be exactly the unread rest of the stream
		var rest []byte
		for i := 0; i < len(stream)+2; i++ {
			p := b.popBuffer()
			if p == nil {
				break
			}
			rest = append(rest, p...)
		}
		vLastRest, vLastRestValid = rest, true
	}
	return got, late
}

// what popBuffer handed over after the last case in which every read was answered
var vLastRest []byte
var vLastRestValid bool

// vC03Backlog: a reader that stands still (paused, or simply slower than the link) while the transport keeps
// delivering tiny reads: more chunks than the buffer's queue holds pile up before the first read is issued.
// Nothing may be dropped: the input side waits instead.
func vC03Backlog(rc *runCtx) {
	tp := rc.tape
	w := rc.w
	nlines := 220 + tp.Draw("c03.bl.lines", 120)
	var stream []byte
	var want [][]byte
	for i := 0; i < nlines; i++ {
		line := []byte(fmt.Sprintf("#DATA:%04d:%s", i, vProtoPayload(tp, 30+tp.Draw("c03.bl.len", 30))))
		want = append(want, line)
		stream = append(append(stream, line...), '\n')
	}
	b := newTrzszBuffer()
	producerDone, consumerDone := false, false
	var got [][]byte
	var rerr string
	w.Go("producer", nil, func() {
		for i := 0; i < len(stream); {
			n := 1
			if tp.Bool("c03.bl.two", 100) {
				n = 2
			}
			if i+n > len(stream) {
				n = len(stream) - i
			}
			b.addBuffer(append([]byte(nil), stream[i:i+n]...))
			i += n
		}
		producerDone = true
	})
	w.Go("consumer", nil, func() {
		// the reader only starts once the input side has stopped making progress (its queue is full) or is done
		verifsim.Sleep(time.Duration(1+tp.Draw("c03.bl.wait", 20)) * time.Millisecond)
		for range want {
			line, err := b.readLine(false, nil)
			if err != nil {
				rerr = err.Error()
				break
			}
			got = append(got, append([]byte(nil), line...))
		}
		consumerDone = true
	})
	w.Run(func() bool { return producerDone && consumerDone })
	rc.res.ClassKey = "backlog"
	rc.res.Scenario["chunks"] = len(stream)
	if !consumerDone || !producerDone {
		b.stopBuffer()
		w.Run(func() bool { return consumerDone })
		rc.violate("reassembly", "C03:backlog-stuck", "with %d one-byte reads queued before the first line read, the reader (done=%v) or the input side (done=%v) never finished; %d of %d lines read", len(stream), consumerDone, producerDone, len(got), len(want))
		return
	}
	for i := range want {
		if i >= len(got) || !bytes.Equal(got[i], want[i]) {
			have := "nothing"
			if i < len(got) {
				have = fmt.Sprintf("%q", vClipB(got[i], 60))
			}
			rc.violate("reassembly", "C03:backlog-lost", "%d tiny reads were delivered before the reader started: line %d came back as %s (err %q), expected %q", len(stream), i, have, rerr, vClipB(want[i], 60))
			return
		}
	}
	rc.w.Probe("backlog-of-tiny-reads")
	rc.res.Probes = rc.w.Probes
	rc.res.Nontrivial = true
}

// vC03Pumps: the bytes reach the buffer through each side's pump (the server's stdin reader, the client's
// output reader): whole fault-free transfers over links that cut nearly every write into many reads, lone
// bytes included. Whatever the cutting, the transfer ends as it does without any.
func vC03Pumps(rc *runCtx) {
	tp := rc.tape
	cfg := vDrawConfig(tp, false)
	cfg.timeout = 20
	cfg.trigVersion = ""
	if tp.Bool("c03p.win", 150) {
		if tp.Bool("c03p.winsrv", 500) {
			cfg.srvWindows = true
		} else {
			cfg.cliWindows = true
		}
	}
	src := filepath.Join(rc.dir, "src")
	dst := filepath.Join(rc.dir, "dst")
	os.MkdirAll(dst, 0755)
	spec := vGenSources(rc, src, 3, cfg.dirMode, 50000, !cfg.overwrite)
	// a file full of bytes that mean something when they arrive alone on a terminal (Ctrl-C above all), sent raw
	ctrlRich := tp.Bool("c03p.ctrlrich", 300)
	if ctrlRich {
		cfg.binary, cfg.compress = true, "no"
		b := make([]byte, 3000+tp.Draw("c03p.ctrlsize", 40000))
		r := rand.New(rand.NewSource(int64(tp.Draw("c03p.ctrlseed", 1<<30))))
		for i := range b {
			switch r.Intn(12) {
			case 0:
				b[i] = 0x03
			case 1:
				b[i] = []byte{0x1a, 0x04, '\r', '\n', '#', 0x1b}[r.Intn(6)]
			default:
				b[i] = byte('a' + r.Intn(26))
			}
		}
		p := filepath.Join(src, "ctrl-rich.bin")
		if len(spec.paths) > 0 {
			if st, err := os.Stat(spec.paths[0]); err == nil && st.IsDir() {
				p = filepath.Join(spec.paths[0], "ctrl-rich.bin")
			} else {
				spec.paths = append(spec.paths, p)
			}
		}
		vWriteFile(p, b)
	}
	o := cfg.opts()
	o.srcPaths, o.dstDir = spec.paths, dst
	defer func() {
		if ctrlRich {
			rc.fault("raw-control-bytes-in-lone-reads")
		}
	}()
	o.profile = transportProfile{lonePm: []int{0, 400}[tp.Draw("c03p.lone", 2)], loneByte: 1 + 0x03, segPm: []int{1000, 700}[tp.Draw("c03p.seg", 2)], coalPm: []int{0, 100, 400}[tp.Draw("c03p.coal", 3)], maxCuts: 2 + tp.Draw("c03p.maxcuts", 8)}
	if tp.Bool("c03p.lat", 300) {
		o.profile.latPm, o.profile.latMax = 300, 20*time.Millisecond
	}
	o.simCap = 20 * time.Minute
	rc.res.ClassKey = "pumps " + cfg.key()
	rc.res.Scenario["config"] = cfg.key()
	rc.res.Scenario["flags"] = strings.Join(o.flags, " ")
	rc.res.Scenario["transport"] = o.profile.String()
	before := vSnapshot(dst)
	x := newXferWorld(rc, o)
	x.start()
	rc.w.Run(x.finished)
	rep := x.report()
	vCheckFidelity(rc, x, rep, before, true)
	if rc.res.Class == "violation" {
		rc.res.Sig = strings.Replace(rc.res.Sig, "C01:", "C03:pumps:", 1)
		rc.res.Msg = "over links that cut nearly every write into several reads: " + rc.res.Msg
	}
	var cuts int64
	for _, l := range append(append([]*verifsim.Link{}, x.up...), x.down...) {
		cuts += int64(l.Cuts)
	}
	rc.res.Scenario["cuts"] = cuts
	for i := int64(0); i < cuts && i < 50; i++ {
		rc.fault("write-cut-into-reads")
	}
}

func vScenarioC03(rc *runCtx) {
	if rc.param("pumps", "0") == "1" {
		vC03Pumps(rc)
		return
	}
	if rc.tape.Bool("c03.backlog", 40) {
		vC03Backlog(rc)
		return
	}
	tp := rc.tape
	exhaustive := tp.Bool("c03.exhaustive", 350)
	windows := tp.Bool("c03.windows", 150)
	var stream []byte
	var ops []vReadOp
	alphabet := []byte("ab#:\n\n\r\r9")
	if tp.Bool("c03.ctrlc", 150) {
		alphabet = append(alphabet, 0x03)
	}
	var wantNoisy []vReadRes
	winNoise := windows && tp.Bool("c03.winnoise", 400)
	if winNoise {
		// the documented console noise (C16's grammar) under every two-way cut and random segmentations: what
		// a line read returns must not depend on where the noisy rendering was cut
		nlines := 1 + tp.Draw("c03.wnlines", 3)
		for i := 0; i < nlines; i++ {
			typ := []string{"SUCC", "DATA", "NAME", "CFG"}[tp.Draw("c03.wntyp", 4)]
			payload := vProtoPayload(tp, 1+tp.Draw("c03.wnlen", 24))
			noisy, _ := vWinNoise(tp, typ, payload)
			stream = append(stream, noisy...)
			ops = append(ops, vReadOp{kind: "win"})
			wantNoisy = append(wantNoisy, vReadRes{data: []byte("#" + typ + ":" + payload)})
		}
	} else if windows {
		// clean Windows framing
		nlines := 1 + tp.Draw("c03.wlines", 5)
		for i := 0; i < nlines; i++ {
			n := 1 + tp.Draw("c03.wlen", 12)
			for j := 0; j < n; j++ {
				stream = append(stream, []byte("abXY09#:+/=")[tp.Draw("c03.wch", 11)])
			}
			stream = append(stream, '!')
			if tp.Bool("c03.wlf", 600) {
				stream = append(stream, '\n')
			}
			ops = append(ops, vReadOp{kind: "win"})
		}
	} else {
		n := 1 + tp.Draw("c03.len", 11)
		if !exhaustive {
			n = 20 + tp.Draw("c03.longlen", 600)
		}
		for i := 0; i < n; i++ {
			if exhaustive || tp.Bool("c03.struct", 500) {
				stream = append(stream, alphabet[tp.Draw("c03.ch", len(alphabet))])
			} else {
				stream = append(stream, byte(tp.Draw("c03.byte", 256)))
			}
		}
		// op sequence; keep drawing ops until the stream is certainly exhausted
		for total := 0; total <= len(stream) && len(ops) < 60; {
			switch tp.Pick("c03.op", 3, 3, 2) {
			case 0:
				ops = append(ops, vReadOp{kind: "line"})
				total += 2
			case 1:
				ops = append(ops, vReadOp{kind: "junk"})
				total += 2
			default:
				k := 1 + tp.Draw("c03.binlen", 9)
				if !exhaustive && tp.Bool("c03.bigbin", 300) {
					k = 1 + tp.Draw("c03.binlen.big", 200)
				}
				ops = append(ops, vReadOp{kind: "bin", n: k})
				total += k
			}
		}
	}
	want, _ := vRefParse(stream, ops, len(stream))
	if winNoise {
		want = wantNoisy
	}
	rc.res.Scenario["stream"] = vQuote(stream, 60)
	var opNames []string
	for _, o := range ops {
		if o.kind == "bin" {
			opNames = append(opNames, fmt.Sprintf("bin%d", o.n))
		} else {
			opNames = append(opNames, o.kind)
		}
	}
	rc.res.Scenario["ops"] = strings.Join(opNames, " ")
	rc.res.ClassKey = fmt.Sprintf("exh=%v win=%v len%d", exhaustive && len(stream) <= 12, windows, len(stream)/20)
	compare := func(got []vReadRes, seg string) bool {
		// results are compared up to and including the first Interrupted
		for i := 0; i < len(want); i++ {
			if i >= len(got) {
				rc.violate("reassembly", "C03:missing-result", "%s: read #%d (%s) never returned; expected %q (stream %s, ops %s)", seg, i, ops[i].kind, vClipB(want[i].data, 40), vQuote(stream, 80), strings.Join(opNames, " "))
				return false
			}
			if want[i].err != "" {
				if !strings.Contains(got[i].err, "Interrupted") {
					rc.violate("reassembly", "C03:ctrl-c-missed", "%s: read #%d (%s) should be interrupted by Ctrl-C, got %q err=%q (stream %s)", seg, i, ops[i].kind, vClipB(got[i].data, 40), got[i].err, vQuote(stream, 80))
					return false
				}
				return true
			}
			if got[i].err != "" || !bytes.Equal(got[i].data, want[i].data) {
				rc.violate("reassembly", "C03:wrong-result:"+ops[i].kind, "%s: read #%d (%s): expected %q, got %q err=%q (stream %s, ops %s)", seg, i, ops[i].kind, vClipB(want[i].data, 60), vClipB(got[i].data, 60), got[i].err, vQuote(stream, 80), strings.Join(opNames, " "))
				return false
			}
		}
		if vLastRestValid && !windows && len(want) == len(ops) && len(got) == len(ops) {
			_, consumed := vRefParse(stream, ops, len(stream))
			if consumed >= 0 && !bytes.Equal(vLastRest, stream[consumed:]) {
				rc.violate("reassembly", "C03:rest-handed-over", "%s: after all %d reads were answered the buffer handed over %q, the unread rest of the stream is %q (stream %s, ops %s)", seg, len(ops), vClipB(vLastRest, 40), vClipB(stream[consumed:], 40), vQuote(stream, 80), strings.Join(opNames, " "))
				return false
			}
		}
		// nothing beyond what the stream holds may be returned successfully
		for i := len(want); i < len(got); i++ {
			if got[i].err == "" {
				rc.violate("reassembly", "C03:extra-result", "%s: read #%d (%s) returned %q although the stream holds no complete answer for it (stream %s)", seg, i, ops[i].kind, vClipB(got[i].data, 40), vQuote(stream, 80))
				return false
			}
		}
		return true
	}
	if winNoise {
		// every two-way cut, then random segmentations (no promptness check: the reference parser above does
		// not model the noise)
		for cut := 1; cut < len(stream) && cut < 400; cut++ {
			got, _ := vRunBufferCase(rc, stream, []int{cut}, ops, false)
			if !compare(got, fmt.Sprintf("noisy Windows rendering cut once at %d (%s|%s)", cut, vQuote(stream[vMax0(cut-12):cut], 14), vQuote(stream[cut:], 12))) {
				return
			}
		}
		for rep := 0; rep < 3; rep++ {
			var cuts []int
			for i := 1; i < len(stream); i++ {
				if tp.Bool("c03.wncut", []int{100, 400, 1000}[rep]) {
					cuts = append(cuts, i)
				}
			}
			got, _ := vRunBufferCase(rc, stream, cuts, ops, false)
			if !compare(got, fmt.Sprintf("noisy Windows rendering with %d cuts", len(cuts))) {
				return
			}
		}
		rc.w.Probe("windows-noise-all-two-way-cuts")
	} else if exhaustive && len(stream) <= 12 && !windows {
		n := len(stream)
		cases := 0
		for mask := 0; mask < 1<<(n-1); mask++ {
			var cuts []int
			for i := 1; i < n; i++ {
				if mask&(1<<(i-1)) != 0 {
					cuts = append(cuts, i)
				}
			}
			got, late := vRunBufferCase(rc, stream, cuts, ops, mask%7 == 0)
			cases++
			if !compare(got, fmt.Sprintf("segmentation %v", cuts)) {
				return
			}
			if late != "" {
				rc.violate("promptness", "C03:late", "segmentation %v: %s", cuts, late)
				return
			}
		}
		rc.res.Scenario["segmentations"] = cases
		rc.w.Probe("exhaustive-segmentations")
	} else {
		for rep := 0; rep < 4; rep++ {
			var cuts []int
			for i := 1; i < len(stream); i++ {
				if tp.Bool("c03.cut", []int{50, 200, 600, 1000}[rep]) {
					cuts = append(cuts, i)
				}
			}
			got, late := vRunBufferCase(rc, stream, cuts, ops, true)
			if !compare(got, fmt.Sprintf("segmentation with %d cuts", len(cuts))) {
				return
			}
			if late != "" {
				rc.violate("promptness", "C03:late", "%d cuts: %s", len(cuts), late)
				return
			}
		}
	}
	rc.res.Probes = rc.w.Probes
	rc.res.Nontrivial = len(want) > 0
}
