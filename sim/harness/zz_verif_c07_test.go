package trzsz

import (
	"fmt"
	"os"
	"path/filepath"
	"sort"
	"strings"
	"time"

	"github.com/trzsz/trzsz-go/internal/verifsim"
)

func init() {
	vScenarios["C07"] = vScenarioC07
}

// vC07Concurrent: two receives at the same time into the same folder (two terminal tabs with one download
// directory), each of a directory (or file) with the same name and different content. Whichever comes second
// steps aside: two names, two intact trees, each report naming the tree it belongs to.
func vC07Concurrent(rc *runCtx) {
	tp := rc.tape
	w := rc.w
	dst := filepath.Join(rc.dir, "dst")
	os.MkdirAll(dst, 0755)
	vWriteFile(filepath.Join(dst, "bystander.txt"), []byte("bystander"))
	name := []string{"logs", "data.bin", "读我.md", "x"}[tp.Draw("c07c.name", 4)]
	asDir := tp.Bool("c07c.dir", 700)
	var xs []*xferWorld
	var befores []vSnap
	for i := 0; i < 2; i++ {
		cfg := vDrawConfig(tp, false)
		cfg.upload, cfg.overwrite, cfg.timeout, cfg.trigVersion, cfg.quiet = false, false, 20, "", true
		cfg.dirMode = asDir
		if asDir {
			cfg.protocol = []int{0, 0, 3, 2}[tp.Draw("c07c.proto", 4)]
		}
		src := filepath.Join(rc.dir, fmt.Sprintf("src%d", i))
		p := filepath.Join(src, name)
		if asDir {
			os.MkdirAll(filepath.Join(p, "sub"), 0755)
			for k := 0; k < 2+tp.Draw("c07c.files", 5); k++ {
				b, _ := vGenContent(tp, 1+tp.Draw("c07c.size", 30000))
				vWriteFile(filepath.Join(p, fmt.Sprintf("f%d-of-transfer-%d.log", k, i)), append(b, byte('0'+i)))
			}
			vWriteFile(filepath.Join(p, "app.log"), []byte(fmt.Sprintf("app.log of transfer %d", i)))
			vWriteFile(filepath.Join(p, "sub", "deep.txt"), []byte(fmt.Sprintf("deep of transfer %d", i)))
		} else {
			os.MkdirAll(src, 0755)
			b, _ := vGenContent(tp, 1+tp.Draw("c07c.size", 60000))
			vWriteFile(p, append(b, byte('0'+i)))
		}
		o := cfg.opts()
		o.srcPaths, o.dstDir = []string{p}, dst
		// one of them over a slow line, so that the other overtakes it between its name and its first data
		o.profile = transportProfile{segPm: 200, coalPm: 100, latPm: []int{0, 1000}[tp.Draw("c07c.slow", 2)], latMax: time.Duration(1+tp.Draw("c07c.lat", 200)) * time.Millisecond}
		o.simCap = 10 * time.Minute
		xs = append(xs, newXferWorld(rc, o))
	}
	rc.res.ClassKey = fmt.Sprintf("concurrent dir=%v %s", asDir, name)
	rc.fault("two-receives-into-one-folder")
	before := vSnapshot(dst)
	befores = append(befores, before, before)
	xs[0].start()
	gap := time.Duration(tp.Draw("c07c.gap", 120)) * time.Millisecond
	started := false
	w.Go("second", nil, func() {
		verifsim.Sleep(gap)
		xs[1].start()
		started = true
	})
	w.Run(func() bool { return started && xs[0].finished() && xs[1].finished() })
	if w.StepCap {
		return
	}
	var reported []string
	reps := []*xferReport{xs[0].report(), xs[1].report()}
	for i := range xs {
		xs[i].o.othersNames = map[string]bool{}
		for _, n := range reps[1-i].clientNames {
			xs[i].o.othersNames[n] = true
		}
	}
	for i, x := range xs {
		rep := reps[i]
		if !rep.serverExited || x.filter.IsTransferringFiles() {
			rc.violate("hang", "C07:concurrent-hang", "transfer %d of two concurrent receives into one folder never ended", i+1)
			return
		}
		vCheckFidelity(rc, x, rep, befores[i], true)
		if rc.res.Class == "violation" {
			rc.res.Sig = strings.Replace(rc.res.Sig, "C01:", "C07:concurrent:", 1)
			rc.res.Msg = fmt.Sprintf("two receives of %q at the same time into one folder, transfer %d: %s", name, i+1, rc.res.Msg)
			return
		}
		reported = append(reported, rep.clientNames...)
	}
	if len(reported) == 2 && reported[0] == reported[1] {
		rc.violate("names", "C07:concurrent-same-name", "two receives of %q at the same time into one folder were both stored as %q", name, reported[0])
		return
	}
	after := vSnapshot(dst)
	if b, ok := after["bystander.txt"]; !ok || !before["bystander.txt"].untouched(b) {
		rc.violate("touched", "C07:concurrent-bystander", "the bystander file was touched")
		return
	}
	rc.res.Nontrivial = true
}

// vScenarioC07: without -y nothing that already exists at the destination is touched.
func vScenarioC07(rc *runCtx) {
	tp := rc.tape
	if tp.Bool("c07.concurrent", 80) {
		vC07Concurrent(rc)
		return
	}
	cfg := vDrawConfig(tp, false)
	cfg.overwrite = false
	cfg.timeout = 20
	if tp.Bool("relay", 200) {
		cfg.relays = 1
	}
	maxSize := 140000
	src := filepath.Join(rc.dir, "src")
	dst := filepath.Join(rc.dir, "dst")
	os.MkdirAll(dst, 0755)
	mode := tp.Pick("c07.mode", 6, 2, 1, 1, 1) // 0 collisions, 1 repeated transfer, 2 name at the length limit, 3 no fresh name left, 4 a dangling symbolic link of that name
	spec := vGenSources(rc, src, 4, cfg.dirMode, maxSize, true)
	if tp.Bool("c07.samepath", 150) {
		// the very same path named twice on the command line: two paths with the same base name like any others
		spec.paths = append(spec.paths, spec.paths[tp.Draw("c07.samepath.which", len(spec.paths))])
	}
	if tp.Bool("c07.casetwin", 200) {
		// two sources whose names differ in letter case only: two different names like any others
		k := tp.Draw("c07.casetwin.which", len(spec.paths))
		base := filepath.Base(spec.paths[k])
		twin := strings.Map(func(r rune) rune {
			switch {
			case r >= 'a' && r <= 'z':
				return r - 32
			case r >= 'A' && r <= 'Z':
				return r + 32
			}
			return r
		}, base)
		if st, err := os.Stat(spec.paths[k]); twin != base && err == nil && (st.Mode().IsRegular() || cfg.dirMode) {
			parent := filepath.Join(src, "casetwin")
			os.MkdirAll(parent, 0755)
			p := filepath.Join(parent, twin)
			if st.IsDir() {
				os.MkdirAll(p, 0755)
				data, _ := vGenContent(tp, 300)
				vWriteFile(filepath.Join(p, "inside.txt"), data)
			} else {
				data, _ := vGenContent(tp, 1+tp.Draw("c07.casetwin.size", 3000))
				vWriteFile(p, data)
			}
			spec.paths = append(spec.paths, p)
			rc.res.Scenario["case_twin"] = twin
		}
	}
	if mode == 2 {
		// a source whose name is at / near the 255-byte limit, colliding at the destination
		n := 251 + tp.Draw("longlen", 5) // 251..255
		name := strings.Repeat("L", n)
		p := filepath.Join(src, name)
		data, _ := vGenContent(tp, 600)
		vWriteFile(p, data)
		spec.paths = append(spec.paths, p)
		vTryWrite(filepath.Join(dst, name), []byte("pre-existing long name"))
	}

	// adversarial prior destination state
	kinds := []string{}
	for _, sp := range spec.paths {
		base := filepath.Base(sp)
		si, _ := os.Stat(sp)
		switch tp.Pick("pre", 3, 3, 2, 2) {
		case 1: // colliding file
			vTryWrite(filepath.Join(dst, base), []byte("old content of "+base))
			kinds = append(kinds, "file")
		case 2: // colliding directory with children that mirror the incoming names
			os.MkdirAll(filepath.Join(dst, base, "sub"), 0755)
			vTryWrite(filepath.Join(dst, base, "keep.txt"), []byte("keep"))
			if si.IsDir() {
				ents, _ := os.ReadDir(sp)
				for _, e := range ents {
					if !e.IsDir() {
						vTryWrite(filepath.Join(dst, base, e.Name()), []byte("old child"))
					}
				}
			}
			kinds = append(kinds, "dir")
		case 3: // name and a name.N series with gaps
			vTryWrite(filepath.Join(dst, base), []byte("old"))
			for i := 0; i < 4; i++ {
				if tp.Bool("series", 600) {
					if tp.Bool("seriesdir", 300) {
						os.MkdirAll(filepath.Join(dst, fmt.Sprintf("%s.%d", base, i)), 0755)
					} else {
						vTryWrite(filepath.Join(dst, fmt.Sprintf("%s.%d", base, i)), []byte("old series"))
					}
				}
			}
			kinds = append(kinds, "series")
		default:
			kinds = append(kinds, "free")
		}
	}
	if mode == 4 {
		// the destination holds a symbolic link with the incoming name that points nowhere: it exists, it is the
		// user's, and it stays (the transfer may fail, or step aside)
		base := filepath.Base(spec.paths[0])
		os.Remove(filepath.Join(dst, base))
		os.RemoveAll(filepath.Join(dst, base))
		os.Symlink(filepath.Join(rc.dir, "no-such-target", base), filepath.Join(dst, base))
		rc.fault("dangling-symlink-with-the-incoming-name")
	}
	if mode == 3 {
		// every candidate name of the first source is taken
		base := filepath.Base(spec.paths[0])
		vTryWrite(filepath.Join(dst, base), []byte("taken"))
		for i := 0; i < 1000; i++ {
			vTryWrite(filepath.Join(dst, fmt.Sprintf("%s.%d", base, i)), []byte("t"))
		}
	}
	// unrelated bystanders
	vTryWrite(filepath.Join(dst, "bystander.txt"), []byte("bystander"))
	os.MkdirAll(filepath.Join(dst, "bystander.d", "deep"), 0755)
	vTryWrite(filepath.Join(dst, "bystander.d", "deep", "f"), []byte("deep"))

	o := cfg.opts()
	o.srcPaths = spec.paths
	o.dstDir = dst
	o.profile = vDrawProfile(tp, cfg.timeout)
	sort.Strings(kinds)
	rc.res.ClassKey = fmt.Sprintf("m%d %s %v", mode, cfg.key(), kinds)
	rc.res.Scenario["config"] = cfg.key()
	rc.res.Scenario["mode"] = mode
	rc.res.Scenario["prior"] = kinds
	rc.res.Scenario["flags"] = strings.Join(o.flags, " ")
	rc.res.Scenario["files"] = spec.files

	before := vSnapshot(dst)
	x := newXferWorld(rc, o)
	x.start()
	rc.w.Run(x.finished)
	rep := x.report()
	vCheckUntouched(rc, before, dst, "first transfer")
	if mode == 2 || mode == 3 || mode == 4 {
		// the transfer may fail (no fresh name can exist); success is allowed only with a fresh name
		if rep.clientOK || rep.serverOK {
			vCheckFidelity(rc, x, rep, before, false)
			vCheckFresh(rc, rep, before, o)
		} else {
			rc.res.Scenario["failed_as_expected"] = true
			if rc.res.Class == "ok" {
				rc.res.Nontrivial = true
			}
		}
		return
	}
	vCheckFidelity(rc, x, rep, before, true)
	vCheckFresh(rc, rep, before, o)
	if rc.res.Class != "ok" || mode != 1 {
		return
	}
	// repeated transfer of the same sources through the same filter: everything collides now
	// OneTimeUpload arms a 10 s watchdog per call: start the next one only after the first has expired
	x.settle(11 * time.Second)
	mid := vSnapshot(dst)
	o2 := cfg.opts()
	o2.srcPaths = spec.paths
	o2.dstDir = dst
	x.nextTransfer(o2)
	rc.w.Run(x.finished)
	rep2 := x.report()
	vCheckUntouched(rc, mid, dst, "second transfer")
	rc.res.Nontrivial = false
	vCheckFidelity(rc, x, rep2, mid, true)
	vCheckFresh(rc, rep2, mid, o2)
	rc.res.Scenario["second_names"] = rep2.clientNames
}

// vCheckUntouched: everything that existed before still exists with the same inode, size, content
// and mtime; pre-existing directories did not gain or lose entries.
func vCheckUntouched(rc *runCtx, before vSnap, dst string, when string) {
	after := vSnapshot(dst)
	for _, k := range before.keys() {
		b := before[k]
		a, ok := after[k]
		if !ok {
			rc.violate("touched", "C07:removed", "%s: pre-existing %q was removed or renamed", when, k)
			return
		}
		if !b.untouched(a) {
			rc.violate("touched", "C07:modified", "%s: pre-existing %q was modified (dir=%v size %d->%d, inode %d->%d, mtime changed=%v)",
				when, k, b.Dir, b.Size, a.Size, b.Ino, a.Ino, b.Mtime != a.Mtime)
			return
		}
	}
	// no new entry inside a pre-existing directory
	for _, k := range after.keys() {
		if _, was := before[k]; was {
			continue
		}
		parent := filepath.Dir(k)
		if parent != "." {
			if pe, was := before[parent]; was && pe.Dir {
				rc.violate("touched", "C07:intruded", "%s: new entry %q was created inside the pre-existing directory %q", when, k, parent)
				return
			}
		}
	}
}

// vCheckFresh: every reported name is new (did not exist before) and of the shape base or base.N.
func vCheckFresh(rc *runCtx, rep *xferReport, before vSnap, o *xferOpts) {
	if rc.res.Class != "ok" {
		return
	}
	names := rep.clientNames
	if !rep.clientOK {
		names = rep.serverNames
	}
	for i, n := range names {
		if _, was := before[n]; was {
			rc.violate("reused", "C07:reused", "source %d was stored under the existing name %q", i, n)
			return
		}
		if i < len(o.srcPaths) {
			base := filepath.Base(o.srcPaths[i])
			if _, collides := before[base]; collides && n == base {
				rc.violate("reused", "C07:reused", "colliding name %q reused", n)
				return
			}
			if _, collides := before[base]; !collides && n != base {
				// a fresh name is only needed on collision (or when an earlier source of this transfer took it)
				taken := false
				for j := 0; j < i; j++ {
					if names[j] == base {
						taken = true
					}
				}
				if !taken {
					rc.violate("names", "C07:renamed-needlessly", "source %q stored as %q although the name was free", base, n)
					return
				}
			}
		}
	}
}
