package trzsz

import (
	"bytes"
	"fmt"
	"os"
	"path/filepath"
	"strings"
	"syscall"
	"time"

	"github.com/trzsz/trzsz-go/internal/verifsim"
)

func init() {
	vScenarios["C14"] = vScenarioC14
}

// vScenarioC14: a relay only narrows what the ends negotiate, and recovers after every transfer.
func vScenarioC14(rc *runCtx) {
	if rc.param("overtake", "0") == "1" {
		vScenarioC13(rc)
		return
	}
	tp := rc.tape
	w := rc.w
	cfg := vDrawConfig(tp, true)
	cfg.relays = 1 + tp.Pick("c14.relays", 3, 1)
	cfg.relayTmux = nil
	for i := 0; i < cfg.relays; i++ {
		cfg.relayTmux = append(cfg.relayTmux, []string{"", "normal", "control"}[tp.Pick("c14.rtmux", 3, 2, 1)])
	}
	// Windows newline: a server that frames its lines with "!\n", or a client on Windows, without a tunnel
	// (Windows-framed server + tunnel is the known C01 finding)
	cfg.cliWindows, cfg.srvWindows = false, false
	if !cfg.tunnel {
		cfg.srvWindows = tp.Bool("c14.winsrv", 200)
		cfg.cliWindows = !cfg.srvWindows && tp.Bool("c14.wincli", 100)
		if cfg.srvWindows {
			cfg.srvTmux = ""
		}
	}
	// -f (hand the transfer to a background process) needs the tunnel: through relays it needs it on every hop
	cfg.fork = cfg.tunnel && tp.Bool("c14.fork", 350)
	cfg.timeout = []int{5, 20, 0, 60}[tp.Pick("c14.timeout", 3, 3, 1, 1)] // 0: the user asked never to time out
	cfg.trigVersion = ""
	cfg.protocol = 0
	if cfg.srvTmux != "" || strings.Contains(strings.Join(cfg.relayTmux, ","), "normal") {
		// binary mode is refused/unsafe inside tmux; the relay forces base64 without a tunnel anyway
	}
	src := filepath.Join(rc.dir, "src")
	dst := filepath.Join(rc.dir, "dst")
	os.MkdirAll(dst, 0755)
	spec := vGenSources(rc, src, 3, cfg.dirMode, 60000, !cfg.overwrite)
	o := cfg.opts()
	o.srcPaths = spec.paths
	o.dstDir = dst
	o.profile = transportProfile{segPm: []int{0, 200, 1000}[tp.Draw("c14.seg", 3)], coalPm: 100, latPm: 200, latMax: 30 * time.Millisecond}
	o.simCap = 20 * time.Minute
	// client capability set, as seen by the first relay
	caps := map[string]any{}
	if tp.Bool("c14.caps", 700) {
		caps["protocol"] = float64(1 + tp.Draw("c14.proto", 9))
		if tp.Bool("c14.nobin", 300) {
			caps["binary"] = false
		}
		if tp.Bool("c14.nodir", 200) && !cfg.dirMode {
			caps["support_dir"] = false
		}
	}
	o.actEdit = func(act map[string]any) {
		for k, v := range caps {
			act[k] = v
		}
	}
	// the relays' own tunnel hop may come up late (after the client has given the tunnel up), over slow links
	if cfg.tunnel && tp.Bool("c14.relayslow", 250) {
		o.relayConnectDelay = time.Duration(600+tp.Draw("c14.relaydelay", 1200)) * time.Millisecond
		if tp.Bool("c14.relayslowlink", 600) {
			o.profile.latPm, o.profile.latMax, o.profile.coalPm = 1000, time.Duration(100+tp.Draw("c14.slowlat", 400))*time.Millisecond, 600
		}
		o.tunnelFast = false
		cfg.fork = false
		o.flags = cfg.flags()
		rc.fault("relay-tunnel-hop-late")
	}
	// a key typed between the trigger and the client's ACT (a laggy hop, an impatient user) sits in front of the ACT
	typeAhead := !cfg.tunnel && tp.Bool("c14.typeahead", 150)
	ending := []string{"exit", "user-stop", "server-disk-error", "sigint", "server-killed"}[tp.Pick("c14.ending", 4, 2, 2, 2, 2)]
	if ending == "server-killed" && (cfg.timeout == 0 || cfg.fork) {
		// (with "never time out" a client whose server has vanished waits for ever, as asked; a transfer handed to
		// the background goes on there until its own timeout, which this scenario does not wait for)
		if cfg.timeout == 0 {
			cfg.timeout = 5
		}
		cfg.fork = false
		o.tunnelFast = false
		o.flags = cfg.flags()
	}
	// -f without a tunnel: the server refuses (the client cannot hand a transfer to the background in-band) and
	// says so; both sides end with that error, the relays return to standby
	forkRefused := !cfg.tunnel && ending == "exit" && tp.Bool("c14.forkrefused", 80)
	if forkRefused {
		ending = "fork-refused"
		cfg.fork = true
		o.flags = cfg.flags()
		rc.fault("fork-asked-without-tunnel")
	}
	if ending == "refused" {
		o.actEdit = func(act map[string]any) {
			for k, v := range caps {
				act[k] = v
			}
			act["confirm"] = false
		}
	}
	rc.res.ClassKey = fmt.Sprintf("%s caps=%v end=%s", cfg.key(), caps, ending)
	rc.res.Scenario["config"] = cfg.key()
	rc.res.Scenario["flags"] = strings.Join(o.flags, " ")
	rc.res.Scenario["caps"] = fmt.Sprint(caps)
	rc.res.Scenario["ending"] = ending
	before := vSnapshot(dst)
	x := newXferWorld(rc, o)
	armed := vArmAfterCfg(x)
	fired := false
	if typeAhead {
		typed := false
		prev := x.downLast().OnWrite
		x.downLast().OnWrite = func(l *verifsim.Link, d []byte) {
			if prev != nil {
				prev(l, d)
			}
			if !typed && bytes.Contains(d, []byte("::TRZSZ:TRANSFER:")) {
				typed = true
				rc.fault("key-typed-before-ACT")
				key := []byte([]string{"\r", "x", "ls", "\x1b[I"}[tp.Draw("c14.typeaheadkey", 4)])
				// (a key sequence travels whole: were it cut, a hop that begins its handshake between two of its bytes
				// would pass on half an escape sequence, which is no key anybody typed)
				for _, l := range append([]*verifsim.Link{x.kbd}, x.up...) {
					prevA := l.Atomic
					l.Atomic = func(d []byte) bool { return bytes.Equal(d, key) || (prevA != nil && prevA(d)) }
				}
				w.Go("user.typeahead", x.client, func() { x.kbd.Write(key) })
			}
		}
	}
	var endHook *bool
	switch ending {
	case "user-stop":
		endHook = vOnChunk(rc, x, armed, 150, func() {
			fired = true
			x.paused = true
			w.Go("user", x.client, func() {
				x.kbd.Write([]byte{0x03})
				verifsim.Sleep(200 * time.Millisecond)
				x.typeKeys("\r", 30*time.Millisecond)
			})
		})
	case "sigint":
		endHook = vOnChunk(rc, x, armed, 150, func() {
			fired = true
			w.Go("signal", nil, func() { x.server.Signal(os.Interrupt) })
		})
	case "server-killed":
		// the server process is gone from one instant to the next (kill -9, the machine, the link behind the last
		// relay): it says nothing more, its connections close
		endHook = vOnChunk(rc, x, armed, 150, func() {
			fired = true
			rc.fault("server-killed")
			x.server.Kill()
		})
	case "server-disk-error":
		d := &verifsim.DiskFaults{ReadErr: syscall.EIO, WriteErr: syscall.ENOSPC}
		w.Disk = d
		hook := func(call int, f *os.File) {
			if !fired && armed() && tp.Bool("c14.disk", 300) {
				fired = true
				if cfg.upload {
					d.FailWriteAt = call
				} else {
					d.FailReadAt = call
				}
			}
		}
		if cfg.upload {
			d.OnWrite = hook
		} else {
			d.OnRead = hook
		}
	}
	x.start()
	w.Run(x.finished)
	w.Disk = nil
	rep := x.report()
	rc.res.Scenario["client_fail"] = vClip(rep.clientFail, 120)
	rc.res.Scenario["server_fail"] = vClip(rep.serverFail, 120)
	rc.res.Scenario["ending_fired"] = fired
	if w.StepCap {
		return
	}
	if !rep.serverExited || x.filter.IsTransferringFiles() {
		if x.slowNotHung() {
			rc.inconclusive("slow")
			return
		}
		rc.violate("hang", "C14:hang:"+ending+x.hangClass(), "first transfer (%s) never ended: server exited=%v client transferring=%v sim=%v; client fail=%q server fail=%q",
			ending, rep.serverExited, x.filter.IsTransferringFiles(), w.Now(), vClip(rep.clientFail, 100), vClip(rep.serverFail, 100))
		return
	}
	// 1. narrowing: ACT as it reached the first relay vs as it reached the server
	_, actIn, _ := x.up[0].Snapshot()
	actOut, _, _ := x.upLast().Snapshot()
	mIn := vFindMsg(vParseWire(actIn, false), "ACT")
	mOut := vFindMsg(vParseWire(actOut, false), "ACT")
	if mIn == nil || mOut == nil {
		// with a tunnel the ACT travels over the tunnel connections: first dialled = client -> first relay,
		// last dialled = last relay -> server
		for _, c := range x.tunnelConns {
			sent, _, _ := c.Wr.Snapshot()
			if m := vFindMsg(vParseWire(sent, false), "ACT"); m != nil {
				if mIn == nil {
					mIn = m
				}
				mOut = m
			}
		}
	}
	if mIn == nil || mOut == nil {
		rc.violate("narrowing", "C14:act-missing", "ACT line not seen on both sides of the relay chain (in=%v out=%v)", mIn != nil, mOut != nil)
		return
	}
	aIn, err1 := vDecodeJSON(mIn.Payload)
	aOut, err2 := vDecodeJSON(mOut.Payload)
	if err1 != nil || err2 != nil {
		rc.violate("narrowing", "C14:act-undecodable", "cannot decode ACT: %v %v", err1, err2)
		return
	}
	tunnel, _ := aOut["tunnel"].(bool)
	if b, _ := aOut["binary"].(bool); b && !tunnel {
		rc.violate("narrowing", "C14:binary-through-relay", "the relay let binary mode through without a tunnel: ACT at server %v", aOut)
		return
	}
	pin, _ := aIn["protocol"].(float64)
	pout, _ := aOut["protocol"].(float64)
	if pout > 4 || pout > pin || (pin <= 4 && pout != pin) {
		rc.violate("narrowing", "C14:protocol", "protocol offered by the client %v became %v after the relay(s)", aIn["protocol"], aOut["protocol"])
		return
	}
	for _, k := range []string{"lang", "version", "confirm", "newline", "support_dir", "fork"} {
		if fmt.Sprint(aIn[k]) != fmt.Sprint(aOut[k]) {
			rc.violate("narrowing", "C14:act-field:"+k, "ACT field %q changed from %v to %v on its way through the relay(s)", k, aIn[k], aOut[k])
			return
		}
	}
	// 2. CFG: server's settings preserved, tmux constraints added
	if ending != "refused" && ending != "fork-refused" {
		cfgSrv, _, _ := x.downLast().Snapshot()
		cfgCli, _, _ := x.down[0].Snapshot()
		cS := vFindMsg(vParseWire(cfgSrv, false), "CFG")
		cC := vFindMsg(vParseWire(cfgCli, false), "CFG")
		if cS != nil {
			if cC == nil {
				rc.violate("narrowing", "C14:cfg-lost", "the server's CFG never reached the client")
				return
			}
			a, e1 := vDecodeJSON(cS.Payload)
			b, e2 := vDecodeJSON(cC.Payload)
			if e1 != nil || e2 != nil {
				rc.violate("narrowing", "C14:cfg-undecodable", "cannot decode CFG: %v %v", e1, e2)
				return
			}
			for _, k := range []string{"quiet", "binary", "directory", "overwrite", "timeout", "protocol", "bufsize", "escape_chars", "compress", "fork"} {
				if av, ok := a[k]; ok && fmt.Sprint(av) != fmt.Sprint(b[k]) {
					rc.violate("narrowing", "C14:cfg-field:"+k, "CFG setting %q: server sent %v, client received %v", k, av, b[k])
					return
				}
			}
			wantJunk := cfg.srvTmux == "normal"
			for _, m := range cfg.relayTmux {
				if m == "normal" {
					wantJunk = true
				}
			}
			if j, _ := b["tmux_output_junk"].(bool); wantJunk && !j {
				rc.violate("narrowing", "C14:tmux-junk-flag", "a relay or the server runs inside tmux (normal mode) but the CFG reaching the client does not say so: %v", b)
				return
			}
			if sw, ok := a["tmux_pane_width"].(float64); ok && sw > 0 {
				if cw, _ := b["tmux_pane_width"].(float64); cw != sw {
					rc.violate("narrowing", "C14:pane-width", "server's tmux pane width %v replaced by %v", sw, cw)
					return
				}
			}
		}
	}
	// 3. files as in a direct transfer whenever a side reports success
	vCheckFidelity(rc, x, rep, before, ending == "exit")
	if rc.res.Class == "violation" {
		rc.res.Sig = strings.Replace(rc.res.Sig, "C01:", "C14:", 1)
		return
	}
	// 4. recovery: every relay is back in standby, transparent in both directions
	x.settle(1500 * time.Millisecond)
	{
		var sts []int32
		for _, r := range x.relay {
			sts = append(sts, int32(r.relayStatus.Load()))
		}
		rc.res.Scenario["relay_status_after_first"] = fmt.Sprint(sts)
	}
	for i, r := range x.relay {
		if st := r.relayStatus.Load(); st != kRelayStandBy {
			rc.violate("recovery", fmt.Sprintf("C14:not-standby:%s:%d", ending, st), "after the transfer ended (%s) relay %d is still in state %d (0 standby, 1 handshaking, 2 transferring); client fail=%q server fail=%q",
				ending, i+1, st, vClip(rep.clientFail, 80), vClip(rep.serverFail, 80))
			return
		}
	}
	for k := range w.Probes {
		if strings.HasPrefix(k, "busyloop:lr:tun.relay") {
			rc.violate("recovery", "C14:relay-busy-loop", "after the transfer ended (%s) a relay goroutine keeps calling Read on its closed tunnel connection in a tight loop (%s): the relay never stops burning CPU", ending, k)
			return
		}
	}
	if msg := x.probeThroughRelays("after transfer 1 (" + ending + ")"); msg != "" {
		rc.violate("recovery", "C14:not-transparent:"+ending, "%s", msg)
		return
	}
	// 5. the next transfer through the same relays works
	cfg2 := *cfg
	if forkRefused {
		cfg2.fork = false
	}
	if !cfg.tunnel {
		// the next server need not be of the same kind as the previous one
		cfg2.srvWindows = tp.Bool("c14.winsrv2", 200)
		if cfg2.srvWindows {
			cfg2.srvTmux = ""
		}
	}
	// ... nor need the tunnel be available again: the next server cannot listen, or a relay's connector towards
	// the next machine has stopped working; the transfer then runs in-band, and the relay narrows it as ever
	tunnel2 := "same"
	if cfg.tunnel {
		tunnel2 = []string{"same", "server-cannot-listen", "relay-connector-dead"}[tp.Pick("c14.tunnel2", 3, 2, 2)]
		if tunnel2 != "same" {
			cfg2.fork = false
		}
	}
	rc.res.Scenario["second_tunnel"] = tunnel2
	dst2 := filepath.Join(rc.dir, "dst2")
	os.MkdirAll(dst2, 0755)
	o2 := cfg2.opts()
	o2.noListen = tunnel2 == "server-cannot-listen"
	o2.relayConnDead = tunnel2 == "relay-connector-dead"
	if tunnel2 != "same" {
		rc.fault("tunnel-gone-for-second-transfer")
	}
	o2.srcPaths = spec.paths
	o2.dstDir = dst2
	x.settle(10 * time.Second) // let the first OneTimeUpload watchdog expire
	if endHook != nil {
		*endHook = true // an ending that never came during the first transfer does not come during the second
	}
	before2 := vSnapshot(dst2)
	x.nextTransfer(o2)
	w.Run(x.finished)
	rep2 := x.report()
	if !rep2.serverExited || x.filter.IsTransferringFiles() {
		rc.violate("recovery", "C14:second-hang:"+ending+x.hangClass(), "the transfer after a %s ending never finished: client fail=%q server fail=%q", ending, vClip(rep2.clientFail, 100), vClip(rep2.serverFail, 100))
		return
	}
	if tunnel2 != "same" {
		// in-band through a relay: binary mode must not have been agreed
		actOut2, _, _ := x.upLast().Snapshot()
		if m := vFindMsg(vParseWire(actOut2[x.markUpLast:], false), "ACT"); m != nil {
			if a, err := vDecodeJSON(m.Payload); err == nil {
				tun, _ := a["tunnel"].(bool)
				if b, _ := a["binary"].(bool); b && !tun {
					rc.violate("narrowing", "C14:second:binary-through-relay", "second transfer (tunnel gone: %s): the relay let binary mode through without a tunnel: ACT at server %v", tunnel2, a)
					return
				}
			}
		}
	}
	vCheckFidelity(rc, x, rep2, before2, true)
	if rc.res.Class == "violation" {
		rc.res.Sig = strings.Replace(rc.res.Sig, "C01:", "C14:second:", 1)
		rc.res.Msg = "second transfer through the same relay(s) after a " + ending + " ending: " + rc.res.Msg
		return
	}
	rc.res.Nontrivial = true
}

// probeThroughRelays: bytes printed by the shell behind the last relay reach the terminal, typed
// bytes reach the shell, unmodified, with no transfer active.
func (x *xferWorld) probeThroughRelays(when string) string {
	w := x.w
	out := []byte(fmt.Sprintf("relay-probe-out-%d$ \x1b[0mls -l\r\n", w.Steps))
	in := []byte(fmt.Sprintf("echo relay-probe-in-%d\r", w.Steps))
	termBefore := x.term.NSentInt()
	upBefore := x.upLast().NSentInt()
	w.Go("probe", nil, func() {
		x.downLast().Write(out)
		for _, c := range in {
			x.kbd.Write([]byte{c})
		}
	})
	x.settle(2 * time.Second)
	term, _, _ := x.term.Snapshot()
	up, _, _ := x.upLast().Snapshot()
	if !strings.Contains(string(term[termBefore:]), string(out)) {
		return fmt.Sprintf("%s: shell output %q did not reach the terminal unmodified through the relay(s); terminal got %s", when, out, vQuote(term[termBefore:], 160))
	}
	if !strings.Contains(string(up[upBefore:]), string(in)) {
		return fmt.Sprintf("%s: typed input %q did not reach the server side through the relay(s); got %s", when, in, vQuote(up[upBefore:], 160))
	}
	return ""
}
