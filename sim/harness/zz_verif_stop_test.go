package trzsz

import (
	"bytes"
	"fmt"
	"math/rand"
	"os"
	"path/filepath"
	"strings"
	"syscall"
	"time"

	"github.com/trzsz/trzsz-go/internal/verifsim"
)

func init() {
	vScenarios["C10"] = vScenarioC10
	vScenarios["C18"] = vScenarioC18
}

// vArmAfterCfg returns a predicate that turns true once the server has written its CFG (the
// handshake is over and the transfer proper has begun).
func vArmAfterCfg(x *xferWorld) func() bool {
	cfgWrites := 0
	armed := false
	prev := x.downLast().OnWrite
	x.downLast().OnWrite = func(l *verifsim.Link, d []byte) {
		if prev != nil {
			prev(l, d)
		}
		if cfgWrites > 0 {
			armed = true
		}
		if strings.Contains(string(d), "#CFG:") {
			cfgWrites++
		}
	}
	prevUp := x.upLast().OnWrite
	x.upLast().OnWrite = func(l *verifsim.Link, d []byte) {
		if prevUp != nil {
			prevUp(l, d)
		}
		if cfgWrites > 0 {
			armed = true
		}
	}
	// with a tunnel the CFG and everything after it travel over connections that are dialled later
	x.chunkHooks = append(x.chunkHooks, func(l *verifsim.Link, d []byte) {
		if cfgWrites > 0 {
			armed = true
		}
		if bytes.Contains(d, []byte("#CFG:")) {
			cfgWrites++
		}
	})
	return func() bool { return armed }
}

// vOnChunk calls f once, at a tape-chosen chunk written on any hop after armed() holds.
func vOnChunk(rc *runCtx, x *xferWorld, armed func() bool, pm int, f func()) *bool {
	fired := new(bool)
	fr := &vFirer{rc: rc, label: "ctl.fire", pm: pm, once: true}
	x.firers = append(x.firers, fr)
	hook := func(l *verifsim.Link, d []byte) {
		if *fired || !armed() || x.server.Exited {
			return
		}
		if fr.fire() {
			*fired = true
			f()
		}
	}
	for _, l := range append(append([]*verifsim.Link{}, x.up...), x.down...) {
		prev := l.OnWrite
		l.OnWrite = func(l *verifsim.Link, d []byte) {
			if prev != nil {
				prev(l, d)
			}
			hook(l, d)
		}
	}
	// tunnel connections come into being later: their writes count as well
	x.chunkHooks = append(x.chunkHooks, hook)
	return fired
}

// typeKeys makes the simulated user press keys one at a time (each key is its own read).
func (x *xferWorld) typeKeys(keys string, gap time.Duration) {
	for i := 0; i < len(keys); i++ {
		x.kbd.Write([]byte{keys[i]})
		verifsim.Sleep(gap)
	}
}

func vStopXfer(rc *runCtx) (*vXferConfig, *xferOpts, vSnap, *treeSpec) {
	tp := rc.tape
	cfg := vDrawConfig(tp, false)
	cfg.timeout = []int{5, 20}[tp.Draw("s.timeout", 2)]
	cfg.trigVersion = ""
	cfg.bufSize = []string{"1K", "4k", ""}[tp.Pick("s.buf", 2, 2, 1)]
	if tp.Bool("s.relay", 120) {
		cfg.relays = 1
	}
	src := filepath.Join(rc.dir, "src")
	dst := filepath.Join(rc.dir, "dst")
	os.MkdirAll(dst, 0755)
	spec := vGenSources(rc, src, 3, cfg.dirMode, 140000, !cfg.overwrite)
	// pre-existing destination content: bystanders, and (with -y) files about to be replaced
	vWriteFile(filepath.Join(dst, "bystander.txt"), []byte("bystander"))
	os.MkdirAll(filepath.Join(dst, "bystander.d"), 0755)
	vWriteFile(filepath.Join(dst, "bystander.d", "x"), []byte("x"))
	if tp.Bool("s.preexist", 400) {
		for _, p := range spec.paths {
			if st, err := os.Stat(p); err == nil && !st.IsDir() {
				b, _ := os.ReadFile(p)
				vTryWrite(filepath.Join(dst, filepath.Base(p)), append([]byte("old:"), b[:len(b)/3]...))
			} else if err == nil {
				// a directory of the same name already there, with a file of its own and (sometimes)
				// older versions of files the transfer is about to replace
				d := filepath.Join(dst, filepath.Base(p))
				os.MkdirAll(filepath.Join(d, "kept.d"), 0755)
				vTryWrite(filepath.Join(d, "keep.txt"), []byte("was here before"))
				ents, _ := os.ReadDir(p)
				for _, e := range ents {
					if !e.IsDir() && tp.Bool("s.oldchild", 500) {
						vTryWrite(filepath.Join(d, e.Name()), []byte("older version"))
					}
				}
			}
		}
	}
	o := cfg.opts()
	o.srcPaths = spec.paths
	o.dstDir = dst
	o.kHash = 4096
	o.profile = transportProfile{segPm: []int{0, 200, 1000}[tp.Draw("s.seg", 3)], coalPm: 100, latPm: 300, latMax: []time.Duration{0, 20 * time.Millisecond, 300 * time.Millisecond}[tp.Draw("s.lat", 3)],
		bytesPerMs: []int{0, 200, 40}[tp.Pick("s.bw", 2, 2, 1)]}
	o.simCap = 30 * time.Minute
	rc.res.Scenario["config"] = cfg.key()
	rc.res.Scenario["flags"] = strings.Join(o.flags, " ")
	rc.res.Scenario["files"] = spec.files
	rc.res.Scenario["bytes"] = spec.bytes
	return cfg, o, vSnapshot(dst), spec
}

func vScenarioC10(rc *runCtx) {
	tp := rc.tape
	cfg, o, before, _ := vStopXfer(rc)
	how := []string{"user-keep", "user-delete", "api-keep", "api-delete", "sigint", "sigterm"}[tp.Draw("c10.how", 6)]
	_, enumerated := rc.enumInt("enum_kind")
	if v, ok := rc.enumInt("enum_kind"); ok {
		how = []string{"user-keep", "user-delete", "api-keep", "api-delete", "sigint", "sigterm"}[v%6]
	}
	// the stop may come after an earlier pause of this transfer (question opened, left open for a long while - the
	// user asked never to time out - and answered "continue"): the server's stop is no slower for it
	priorPause := !enumerated && (cfg.protocol == 0 || cfg.protocol >= 3) && tp.Bool("c10.priorpause", 300)
	priorCycles, stallDuring, priorEarly, priorAtChunk := 1, false, false, 0
	var priorLen time.Duration
	if priorPause {
		cfg.timeout = 0
		o.flags = cfg.flags()
		rc.res.Scenario["flags"] = strings.Join(o.flags, " ")
		how = []string{"sigint", "sigterm", "user-keep", "api-keep", "user-delete"}[tp.Draw("c10.priorhow", 5)]
		if !cfg.upload && (how == "sigint" || how == "sigterm") {
			// a receiving client that pauses while it owes no acknowledgement sends nothing at all, so the sending
			// server cannot tell the pause from a slow link and, by its own rule (twice the slowest recent chunk),
			// takes that long to stop: not what this history is about - after a download's pause the client stops
			how = []string{"user-keep", "api-keep", "user-delete"}[tp.Draw("c10.priorhowdn", 3)]
		}
		priorLen = time.Duration(40+tp.Draw("c10.priorlen", 120)) * time.Second
		priorCycles = 1 + tp.Draw("c10.priorcycles", 2)
		// (only for downloads stopped by the client, and only the client is timed then: the sending server
		// rightly counts a stalled link as a slow one and takes its time)
		// (base64 lines only: in binary mode a block whose size line came in before the stall is read without the
		// correction for the pause, so the stalled link counts as the slow link it was - the sender's view, by design)
		stallDuring = !cfg.upload && !cfg.binary && tp.Bool("c10.priorstall", 400)
		if stallDuring && tp.Bool("c10.priorstall2", 700) {
			// mostly after an earlier question that was answered while data was flowing
			priorCycles = 2
		}
		if priorEarly = cfg.upload && tp.Bool("c10.priorearly", 300); priorEarly {
			// the question opens while the sender is still finding its chunk size (doubling from 10 KiB as long as
			// acknowledgements come back fast), several chunks on their way: a long first file that does not compress
			big := make([]byte, 600000+tp.Draw("c10.priorbig", 900000))
			rand.New(rand.NewSource(int64(tp.Draw("c10.priorseed", 1<<30)))).Read(big)
			bp := filepath.Join(rc.dir, "src", "zz-long-first.bin")
			vWriteFile(bp, big)
			o.srcPaths = append([]string{bp}, o.srcPaths...)
			o.profile.bytesPerMs, o.profile.latPm = 0, 0
			priorAtChunk = 2 + tp.Draw("c10.prioratchunk", 5)
		}
	}
	// the user may have asked never to time out: a stop still ends both sides (the peer is told, it does not wait)
	if !priorPause && !enumerated && tp.Bool("c10.notimeout", 150) {
		cfg.timeout = 0
		o.flags = cfg.flags()
		rc.res.Scenario["flags"] = strings.Join(o.flags, " ")
		rc.fault("never-time-out")
	}
	T := time.Duration(cfg.timeout) * time.Second
	x := newXferWorld(rc, o)
	w := rc.w
	if x.ccKeys = !enumerated && tp.Bool("c10.cckeys", 150); x.ccKeys {
		rc.fault("keys-as-tmux-control-mode-commands")
	}
	armed := vArmAfterCfg(x)
	del := strings.HasSuffix(how, "delete")
	var stopAt time.Duration = -1
	pm := []int{30, 100, 400}[tp.Draw("c10.rate", 3)]
	think := []time.Duration{50 * time.Millisecond, 300 * time.Millisecond, 2 * time.Second}[tp.Draw("c10.think", 3)]
	// now and then the question stays open for longer than any bound in this check: the peer may have given
	// up by then (that is C18's subject), but the side that owns the question still ends promptly once answered
	longThink := strings.HasPrefix(how, "user-") && tp.Bool("c10.longthink", 120)
	if longThink {
		think = 3*vMaxDur(T, 20*time.Second) + 15*time.Second + time.Duration(tp.Draw("c10.longextra", 60))*time.Second
	}
	stopArmed := armed
	// how long the server heard nothing at all while an earlier question was open: a sender that is paused while it
	// has nothing to send (waiting for an acknowledgement, between two files) writes no keep-alives either, and the
	// server then cannot tell the pause from a slow link - by its own rule (twice the slowest recent chunk) it takes
	// that long to stop, as after a stalled link
	var upSilence, upLast time.Duration
	upWatch := false
	if priorPause {
		prevUp := x.up[0].OnWrite
		x.up[0].OnWrite = func(l *verifsim.Link, dd []byte) {
			if prevUp != nil {
				prevUp(l, dd)
			}
			if upWatch && w.Now()-upLast > upSilence {
				upSilence = w.Now() - upLast
			}
			upLast = w.Now()
		}
	}
	if priorPause {
		continued := false
		stopArmed = func() bool { return continued }
		priorPm := pm
		priorArmed := armed
		if priorEarly {
			priorPm = 1000
			seen := 0
			prevUp := x.up[0].OnWrite
			x.up[0].OnWrite = func(l *verifsim.Link, dd []byte) {
				if prevUp != nil {
					prevUp(l, dd)
				}
				if bytes.HasPrefix(dd, []byte("#DATA:")) {
					seen++
				}
			}
			priorArmed = func() bool { return armed() && seen >= priorAtChunk }
		}
		vOnChunk(rc, x, priorArmed, priorPm, func() {
			rc.fault("earlier-pause-continued")
			x.paused = true
			w.Go("user", x.client, func() {
				for c := 0; c < priorCycles; c++ {
					if !x.filter.IsTransferringFiles() {
						break
					}
					if c == priorCycles-1 && stallDuring {
						// the link happens to stall while the question is open: a read that began before the question
						// is still waiting when it is answered
						rc.fault("link-stalled-while-question-open")
						for _, l := range x.down {
							l.StallUntil = w.Now() + 300*time.Millisecond + priorLen + time.Second
						}
						// (the stall begins a moment before the key: what was in flight has been taken in and the read
						// for the next chunk is waiting when the question opens)
						verifsim.Sleep(300 * time.Millisecond)
					}
					x.kbd.Write([]byte{0x03})
					upWatch = true
					verifsim.Sleep(priorLen)
					if w.Now()-upLast > upSilence {
						upSilence = w.Now() - upLast
					}
					upWatch = false
					x.typeKeys("jj", 20*time.Millisecond)
					x.typeKeys("\r", 20*time.Millisecond)
					verifsim.Sleep(time.Duration(100+tp.Draw("c10.priorgap", 900)) * time.Millisecond)
				}
				continued = true
			})
		})
	}
	stopPm := pm
	if priorPause {
		stopPm = 1000 // the stop follows the continue closely: what the pause left behind is still in effect
	}
	vOnChunk(rc, x, stopArmed, stopPm, func() {
		rc.fault("stop-" + how)
		switch how {
		case "user-keep", "user-delete":
			x.paused = true
			w.Go("user", x.client, func() {
				x.kbd.Write([]byte{0x03})
				verifsim.Sleep(think)
				if del {
					x.typeKeys("j", 30*time.Millisecond)
				}
				stopAt = w.Now()
				x.typeKeys("\r", 30*time.Millisecond)
			})
		case "api-keep", "api-delete":
			stopAt = w.Now()
			w.Go("api", x.client, func() { x.filter.StopTransferringFiles(del) })
		case "sigint", "sigterm":
			stopAt = w.Now()
			sig := os.Signal(os.Interrupt)
			if how == "sigterm" {
				sig = syscall.SIGTERM
			}
			w.Go("signal", nil, func() { x.server.Signal(sig) })
		}
	})
	rc.res.ClassKey = fmt.Sprintf("%s %s prior=%v", cfg.key(), how, priorPause)
	rc.res.Scenario["stop"] = how
	rc.res.Scenario["earlier_pause"] = fmt.Sprintf("%v x%d", priorLen, priorCycles)
	x.start()
	w.Run(x.finished)
	rep := x.report()
	rc.res.Scenario["client_fail"] = vClip(rep.clientFail, 200)
	rc.res.Scenario["server_fail"] = vClip(rep.serverFail, 200)
	rc.res.Scenario["server_text"] = vClip(rep.serverText, 200)
	rc.res.Scenario["stop_at"] = stopAt.String()
	rc.res.Scenario["enum_places"] = x.firerPlaces()
	if stopAt < 0 {
		vCheckFidelity(rc, x, rep, before, false)
		rc.res.Nontrivial = false
		return
	}
	if w.StepCap {
		return
	}
	tb := T
	if tb < 20*time.Second {
		tb = 20 * time.Second
	}
	bound := 3*tb + 10*time.Second
	clientBusy := x.filter.IsTransferringFiles()
	if !rep.serverExited || clientBusy {
		rc.violate("hang", "C10:hang:"+how+x.hangClass(), "stop (%s) at %v: a role never returned (server exited=%v, client transferring=%v, sim=%v); client fail=%q server fail=%q parked=%s",
			how, stopAt, rep.serverExited, clientBusy, w.Now(), vClip(rep.clientFail, 100), vClip(rep.serverFail, 100), vClip(w.ParkedSummary(), 400))
		return
	}
	serverUntimed := stallDuring || upSilence > 10*time.Second
	rc.res.Scenario["stop_took"] = fmt.Sprintf("client %v server %v", (x.clientDoneAt - stopAt).Round(time.Second), (x.serverDoneAt - stopAt).Round(time.Second))
	if upSilence > 10*time.Second {
		rc.res.Scenario["server_heard_nothing_for"] = upSilence.String()
	}
	// (a stop that begins at the server reaches the client when the server has waited that out)
	clientUntimed := upSilence > 10*time.Second && (how == "sigint" || how == "sigterm")
	if (x.serverDoneAt > stopAt+bound && !serverUntimed) || (x.clientDoneAt > stopAt+bound && !clientUntimed) {
		rc.violate("late", "C10:late:"+how, "stop (%s) at %v: server returned at %v, client at %v; bound 3*max(T,20s)+10s with T=%v", how, stopAt, x.serverDoneAt, x.clientDoneAt, T)
		return
	}
	if longThink {
		// the peer may have timed out on its own long before the answer: only termination and "no success for an
		// incomplete file" are asserted here
		vCheckFidelity(rc, x, rep, before, false)
		if rc.res.Class == "violation" {
			rc.res.Sig = strings.Replace(rc.res.Sig, "C01:", "C10:longthink:", 1)
			return
		}
		rc.w.Probe("stop-answered-after-long-think")
		rc.res.Probes = rc.w.Probes
		rc.res.Nontrivial = true
		return
	}
	// what each side said
	said := rep.clientFail + "\n" + rep.serverFail + "\n" + rep.serverText
	stoppedSaid := strings.Contains(said, "Stopped")
	if !stoppedSaid && !(rep.clientOK || rep.serverOK) {
		// an error other than "stopped" on a fault-free link: only acceptable if it is the peer relaying the stop
		rc.violate("report", "C10:not-stopped:"+how+":"+vNormMsg(vFirstLine(rep.clientFail+rep.serverFail)), "stop (%s) at %v: neither side reported 'Stopped' nor success; client fail=%q server fail=%q server text=%q",
			how, stopAt, vClip(rep.clientFail, 200), vClip(rep.serverFail, 200), rep.serverText)
		return
	}
	// success claims must be true (never success for an incomplete file)
	vCheckFidelity(rc, x, rep, before, false)
	if rc.res.Class == "violation" {
		rc.res.Sig = strings.Replace(rc.res.Sig, "C01:", "C10:", 1)
		return
	}
	after := vSnapshot(o.dstDir)
	// bystanders are never touched
	for _, k := range []string{"bystander.txt", "bystander.d", "bystander.d/x"} {
		if !before[k].untouched(after[k]) {
			rc.violate("touched", "C10:bystander", "stop (%s): pre-existing %q outside the transfer was touched", how, k)
			return
		}
	}
	transferred := map[string]bool{}
	srcRel := map[string]bool{} // relative paths (under the destination) that the sources map to
	for _, p := range o.srcPaths {
		base := filepath.Base(p)
		transferred[base] = true
		srcRel[base] = true
		for k := range vSnapshot(p) {
			srcRel[filepath.Join(base, k)] = true
		}
	}
	deleted := strings.Contains(said, "Stopped and deleted")
	if deleted {
		// everything this transfer created is gone; what existed before and was not being replaced is untouched
		for _, k := range after.keys() {
			b, was := before[k]
			top := strings.Split(k, string(os.PathSeparator))[0]
			if !was {
				rc.violate("delete", "C10:left-behind", "stop and delete (%s): %q was created by the transfer and is still there (reports: %q)", how, k, vClip(said, 200))
				return
			}
			_ = top
			if !b.untouched(after[k]) && !(cfg.overwrite && srcRel[k]) && !b.Dir {
				rc.violate("delete", "C10:modified", "stop and delete (%s): pre-existing %q was modified", how, k)
				return
			}
			if cfg.overwrite && srcRel[k] && !b.untouched(after[k]) && !after[k].Dir {
				rc.violate("delete", "C10:half-replaced", "stop and delete (%s): %q had begun to be replaced and was neither removed nor left as it was", how, k)
				return
			}
		}
		for _, k := range before.keys() {
			if _, ok := after[k]; !ok && !(cfg.overwrite && srcRel[k] && !before[k].Dir) {
				rc.violate("delete", "C10:removed-foreign", "stop and delete (%s): pre-existing %q, which the transfer neither created nor had begun to replace, was removed", how, k)
				return
			}
		}
		rc.w.Probe("stopped-and-deleted")
	} else if del && stoppedSaid && !(rep.clientOK && rep.serverOK) {
		// delete was asked for: if anything was created it must have been reported as deleted
		for _, k := range after.keys() {
			if _, was := before[k]; !was {
				rc.violate("delete", "C10:delete-ignored", "stop and delete (%s) was requested, the transfer ended with %q, but %q created by it is still there", how, vClip(vFirstLine(rep.clientFail+"\n"+rep.serverText), 80), k)
				return
			}
		}
	} else if stoppedSaid {
		// plain stop: a destination file that looks complete must be complete
		baseCount := map[string]int{}
		for _, sp := range o.srcPaths {
			baseCount[filepath.Base(sp)]++
		}
		for _, sp := range o.srcPaths {
			st, err := os.Stat(sp)
			if err != nil || st.IsDir() {
				continue
			}
			name := filepath.Base(sp)
			if baseCount[name] > 1 {
				continue // two sources share the base name: which one landed under it is C07's business
			}
			if a, ok := after[name]; ok && !a.Dir && a.Size == st.Size() {
				if _, was := before[name]; was && !cfg.overwrite {
					continue
				}
				sb, _ := os.ReadFile(sp)
				db, _ := os.ReadFile(filepath.Join(o.dstDir, name))
				if string(sb) != string(db) {
					rc.violate("keep", "C10:kept-corrupt", "plain stop (%s): %q has the full length but differs from its source at offset %d", how, name, vFirstDiff(sb, db))
					return
				}
			}
		}
		rc.w.Probe("stopped-kept")
	}
	if rep.clientOK || rep.serverOK {
		rc.w.Probe("stop-after-completion")
	}
	rc.res.Probes = rc.w.Probes
	rc.res.Nontrivial = true
}

func vMaxDur(a, b time.Duration) time.Duration {
	if a > b {
		return a
	}
	return b
}

func vFirstLine(s string) string {
	s = strings.TrimSpace(s)
	if i := strings.IndexAny(s, "\r\n"); i >= 0 {
		return s[:i]
	}
	return s
}

// vScenarioC18: pause for the stop/continue question, then continue.
func vScenarioC18(rc *runCtx) {
	if rc.param("pauseread", "0") == "1" {
		vC18PauseRead(rc)
		return
	}
	tp := rc.tape
	cfg, o, before, _ := vStopXfer(rc)
	cfg.protocol = []int{0, 3}[tp.Draw("c18.proto", 2)]
	cfg.timeout = []int{2, 5, 20}[tp.Draw("c18.timeout", 3)]
	cfg.quiet = tp.Bool("c18.quiet", 500)
	o2 := cfg.opts()
	o2.srcPaths, o2.dstDir, o2.kHash, o2.profile, o2.simCap = o.srcPaths, o.dstDir, o.kHash, o.profile, o.simCap
	o = o2
	if o.profile.latMax > 100*time.Millisecond {
		o.profile.latMax = 100 * time.Millisecond
	}
	rc.res.Scenario["config"] = cfg.key()
	rc.res.Scenario["flags"] = strings.Join(o.flags, " ")
	T := time.Duration(cfg.timeout) * time.Second
	x := newXferWorld(rc, o)
	w := rc.w
	if x.ccKeys = tp.Bool("c18.cckeys", 150); x.ccKeys {
		rc.fault("keys-as-tmux-control-mode-commands")
	}
	// the queue in which a side keeps what it has read but not yet parsed is finite (10000 reads as shipped): with
	// small reads and a paused reader it fills up, and the pump in front of it has to wait, not drop. The capacity is
	// a tuning knob of the instrumented copy, turned down here so that a run of ordinary length gets there.
	if !cfg.upload && tp.Bool("c18.smallqueue", 80) {
		w.BufQueue = 8 + tp.Draw("c18.queuecap", 120)
		x.down[0].ReadMax = 64 << uint(tp.Draw("c18.readmax", 4))
		rc.fault("small-read-queue")
	}
	armed := vArmAfterCfg(x)
	cycles := 1 + tp.Pick("c18.cycles", 5, 2, 1)
	// pause length relative to the timeout
	dsel := tp.Draw("c18.d", 6)
	if v, ok := rc.enumInt("enum_kind"); ok {
		dsel = v % 6
		cycles = 1
	}
	frac := []float64{0.02, 0.3, 0.8, 1.0, 1.2, 3.0}[dsel]
	d := time.Duration(float64(T) * frac)
	band := "short"
	if frac > 0.8 && frac < 1.2 {
		band = "edge"
	} else if frac >= 1.2 {
		band = "long"
	}
	type window struct{ from, to time.Duration }
	var wins []window
	done := 0
	pm := []int{30, 100, 400}[tp.Draw("c18.rate", 3)]
	// the moment the pause begins may be one at which the peer has been quiet for a while already: the
	// server's disk is slow for one operation (a write when it receives, a read when it sends; no timer of
	// the server runs meanwhile) from `lead` before the pause until `extra` after it. lead and extra are
	// below the timeout; lead + pause may exceed it, which the pause excuses: the read that expires while
	// the question is open is tried again.
	hiccup := tp.Bool("c18.hiccup", 350)
	if _, enum := rc.enumInt("enum_kind"); hiccup && !enum && tp.Bool("c18.hiccup.expiry", 500) {
		// the interesting region: the read that began before the slow operation expires while the question is open
		frac = 0.8
		d = time.Duration(float64(T) * frac)
		band = "short"
	}
	lead := time.Duration(float64(T) * []float64{0.3, 0.5, 0.7}[tp.Draw("c18.lead", 3)])
	extra := time.Duration(float64(T) * []float64{0, 0.1, 0.3}[tp.Draw("c18.extra", 3)])
	var stallFor, stallArmedAt time.Duration
	if hiccup {
		df := &verifsim.DiskFaults{}
		hook := func(call int, f *os.File) {
			if stallFor > 0 && verifsim.CurProc() == x.server {
				sl := stallFor
				stallFor = 0
				if w.Now()-stallArmedAt > 50*time.Millisecond {
					// the server did not touch its disk when the moment came: a slow operation that begins later
					// would not be covered by the pause any more
					return
				}
				rc.fault("server-disk-slow-before-pause")
				verifsim.Sleep(sl)
			}
		}
		if cfg.upload {
			df.OnWrite = hook
		} else {
			df.OnRead = hook
		}
		w.Disk = df
	}
	// the peer may die at the very moment the user opens the question (nothing it sends arrives any more): the
	// pause then ends in an error, never in a hang
	peerDies := !hiccup && tp.Bool("c18.peerdies", 120)
	peerDead := false
	if peerDies {
		prev := x.down[0].Mangle
		x.down[0].Mangle = func(l *verifsim.Link, d []byte) []byte {
			if prev != nil {
				d = prev(l, d)
			}
			if peerDead {
				return nil
			}
			return d
		}
	}
	// the sender may have made its chunks smaller shortly before (one acknowledgement took seconds): what it had
	// already encoded at the old size now goes out in several pieces, and the pause may begin between two of them
	shrinkFirst := !hiccup && !peerDies && cfg.upload && cfg.timeout >= 5 && tp.Bool("c18.shrinkfirst", 500)
	if _, enum := rc.enumInt("enum_kind"); enum {
		shrinkFirst = false
	}
	pauseArmed := armed
	if shrinkFirst {
		// a first file long enough for plenty of data to be left when the late acknowledgement has come
		big := make([]byte, 300000+tp.Draw("c18.shrinkbig", 300000))
		rand.New(rand.NewSource(int64(tp.Draw("c18.shrinkseed", 1<<30)))).Read(big)
		bp := filepath.Join(rc.dir, "src", "zz-long-first.bin")
		vWriteFile(bp, big)
		o.srcPaths = append([]string{bp}, o.srcPaths...)
		// a line of limited capacity behind a small pipe: the sender's writes take their time, piece by piece
		o.profile.serial, o.profile.bytesPerMs, o.profile.pipeCap = true, []int{50, 100, 200}[tp.Draw("c18.shrinkbw", 3)], []int{2048, 8192}[tp.Draw("c18.shrinkpipe", 2)]
		o.profile.latPm = 0
		for _, l := range append(append([]*verifsim.Link{}, x.up...), x.down...) {
			o.profile.apply(l)
		}
		slowDone := false
		vLateAck(rc, x, armed, 4+tp.Draw("c18.slowat", 12), time.Duration(3000+tp.Draw("c18.slowack", 1500))*time.Millisecond, func() { slowDone = true })
		// the pause begins right at one of the first data writes the client makes once the late acknowledgement
		// is on its way back
		piecesAfter, skip := 0, tp.Draw("c18.shrinkskip", 4)
		prevUp := x.up[0].OnWrite
		x.up[0].OnWrite = func(l *verifsim.Link, d []byte) {
			if prevUp != nil {
				prevUp(l, d)
			}
			if slowDone && bytes.HasPrefix(d, []byte("#DATA:")) {
				piecesAfter++
			}
		}
		pauseArmed = func() bool { return slowDone && piecesAfter > skip }
		pm = 1000
	}
	type promptEv struct {
		step int64
		at   time.Duration
	}
	var prompts []promptEv // every drawing of the question (it is drawn again at each key)
	{
		prev := x.term.OnWrite
		x.term.OnWrite = func(l *verifsim.Link, d []byte) {
			if prev != nil {
				prev(l, d)
			}
			if bytes.Contains(d, []byte("Are you sure you want to stop")) {
				prompts = append(prompts, promptEv{int64(w.Steps), w.Now()})
			}
		}
	}
	var arm func()
	arm = func() {
		vOnChunk(rc, x, pauseArmed, pm, func() {
			rc.fault("pause")
			x.paused = true
			if peerDies && !peerDead {
				peerDead = true
				rc.fault("peer-dies-at-pause")
			}
			if hiccup {
				stallFor = lead + d + extra + 200*time.Millisecond
				stallArmedAt = w.Now()
			}
			w.Go("user", x.client, func() {
				if hiccup {
					verifsim.Sleep(lead)
				}
				if !x.filter.IsTransferringFiles() {
					return
				}
				x.kbd.Write([]byte{0x03})
				from := w.Now() + 20*time.Millisecond
				verifsim.Sleep(d)
				x.typeKeys("jj", 20*time.Millisecond)
				to := w.Now()
				x.typeKeys("\r", 20*time.Millisecond)
				if to > from {
					wins = append(wins, window{from, to})
				}
				done++
				if done < cycles {
					verifsim.Sleep(time.Duration(100+tp.Draw("c18.gap", 900)) * time.Millisecond)
					arm()
				}
			})
		})
	}
	arm()
	rc.res.ClassKey = fmt.Sprintf("%s %s x%d", cfg.key(), band, cycles)
	rc.res.Scenario["pause"] = fmt.Sprintf("%v (%s of T=%v) x%d", d, band, T, cycles)
	x.start()
	w.Run(x.finished)
	rep := x.report()
	rc.res.Scenario["client_fail"] = vClip(rep.clientFail, 200)
	rc.res.Scenario["server_fail"] = vClip(rep.serverFail, 200)
	rc.res.Scenario["pauses_done"] = done
	rc.res.Scenario["enum_places"] = x.firerPlaces()
	if done == 0 {
		vCheckFidelity(rc, x, rep, before, false)
		rc.res.Nontrivial = false
		return
	}
	if w.StepCap {
		return
	}
	clientBusy := x.filter.IsTransferringFiles()
	if !rep.serverExited || clientBusy {
		if x.slowNotHung() {
			rc.inconclusive("slow")
			return
		}
		rc.violate("hang", "C18:hang:"+band+x.hangClass(), "after %d pause(s) of %v (T=%v) a role never returned (server exited=%v, client transferring=%v, sim=%v); client fail=%q server fail=%q parked=%s",
			done, d, T, rep.serverExited, clientBusy, w.Now(), vClip(rep.clientFail, 100), vClip(rep.serverFail, 100), vClip(w.ParkedSummary(), 400))
		return
	}
	if band == "short" && !peerDead {
		vCheckFidelity(rc, x, rep, before, true)
		if rc.res.Class == "violation" {
			rc.res.Sig = strings.Replace(rc.res.Sig, "C01:", "C18:short:", 1)
			rc.res.Msg = fmt.Sprintf("pause %v < 0.8*T (T=%v): %s", d, T, rc.res.Msg)
			return
		}
	} else {
		vCheckFidelity(rc, x, rep, before, false)
		if rc.res.Class == "violation" {
			rc.res.Sig = strings.Replace(rc.res.Sig, "C01:", "C18:long:", 1)
			return
		}
	}
	// while paused, the paused side sends no further file data: keep-alives take its place
	up, _, evs := x.up[0].Snapshot()
	for _, win := range wins {
		n := 0
		var first string
		for _, e := range evs {
			if e.T <= win.from || e.T >= win.to || e.Off+e.N > len(up) {
				continue
			}
			chunk := string(up[e.Off : e.Off+e.N])
			if strings.HasPrefix(chunk, "#DATA:") && !strings.HasPrefix(chunk, "#DATA:=") {
				n++
				if first == "" {
					first = vClip(chunk, 30)
				}
			}
		}
		if n > 2 {
			rc.violate("data-while-paused", "C18:data-while-paused", "the client wrote %d data messages between %v and %v while the stop/continue question was open (first %q)", n, win.from, win.to, first)
			return
		}
		if n == 0 && win.to-win.from > 300*time.Millisecond {
			rc.w.Probe("pause-window-quiet")
		}
	}
	// the same by order of events: once the question is on the screen the pause is in force; the one write that had
	// passed the pause check just before may still follow, a second one may not
	for _, win := range wins {
		shown := int64(-1)
		for _, p := range prompts {
			if p.at >= win.from-25*time.Millisecond && p.at < win.to {
				shown = p.step // its first drawing in this pause
				break
			}
		}
		if shown < 0 {
			continue
		}
		n := 0
		var first string
		for _, e := range evs {
			if int64(e.Step) <= shown || e.T >= win.to || e.Off+e.N > len(up) {
				continue
			}
			chunk := string(up[e.Off : e.Off+e.N])
			if strings.HasPrefix(chunk, "#DATA:") && !strings.HasPrefix(chunk, "#DATA:=") {
				n++
				if first == "" {
					first = vClip(chunk, 30)
				}
			}
		}
		rc.res.Scenario["data_after_question"] = fmt.Sprint(rc.res.Scenario["data_after_question"], " ", n)
		if n > 1 {
			rc.violate("data-while-paused", "C18:data-after-question", "the client wrote %d data messages after the stop/continue question had appeared on the screen and before it was answered at %v (first %q)", n, win.to, first)
			return
		}
	}
	if rep.clientOK && rep.serverOK {
		rc.w.Probe("resumed-to-success:" + band)
	} else {
		rc.w.Probe("ended-in-error:" + band)
	}
	rc.res.Probes = rc.w.Probes
	rc.res.Nontrivial = true
}

// vLateAck holds the k-th acknowledgement the server writes (after armed) back on the wire for d: it, and whatever
// the server writes meanwhile, arrives d later. done (optional) is called when the hold is over.
func vLateAck(rc *runCtx, x *xferWorld, armed func() bool, k int, d time.Duration, done func()) {
	l := x.downLast()
	n, held := 0, false
	prev := l.OnWrite
	l.OnWrite = func(ll *verifsim.Link, data []byte) {
		if prev != nil {
			prev(ll, data)
		}
		if held || !armed() || !bytes.HasPrefix(data, []byte("#SUCC:")) {
			return
		}
		if n++; n >= k {
			held = true
			rc.fault("acknowledgement-seconds-late")
			ll.StallUntil = x.w.Now() + d
			x.w.Go("lateack.timer", nil, func() {
				verifsim.Sleep(d)
				if done != nil {
					done()
				}
			})
		}
	}
}
