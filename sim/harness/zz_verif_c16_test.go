package trzsz

import (
	"bytes"
	"encoding/json"
	"fmt"
	"strings"
	"time"

	"github.com/trzsz/trzsz-go/internal/verifsim"
)

func init() {
	vScenarios["C16"] = vScenarioC16
}

const vProtoAlphabet = "ABCDEFGHIJKLMNOPQRSTUVWXYZabcdefghijklmnopqrstuvwxyz0123456789+/="

// the tmux status-line control string in the shape captured in the repository's own tests
const vTmuxStatus = "\x1bP=1s\x1b\\\x1b[?25l\x1b[?12l\x1b[?25h\x1b[5 q\x1bP=2s\x1b\\"

func vProtoPayload(tp *verifsim.Tape, n int) string {
	b := make([]byte, n)
	for i := range b {
		b[i] = vProtoAlphabet[tp.Draw("p.ch", len(vProtoAlphabet))]
	}
	// runs of equal characters matter for the Windows re-print rule
	if n > 3 && tp.Bool("p.run", 400) {
		k := tp.Draw("p.runat", n-2)
		b[k+1] = b[k]
	}
	return string(b)
}

// vTmuxNoise renders line (typ, payload) the way tmux decorates it.
func vTmuxNoise(tp *verifsim.Tape, typ, payload string) ([]byte, []string) {
	clean := "#" + typ + ":" + payload
	var out []byte
	var kinds []string
	// unrelated text in front of the marker: no bare LF, no Ctrl-C, not the marker itself
	if tp.Bool("n.front", 500) {
		front := []string{"$ tsz file\r\n", "user@host:~$ ", "#SUCC:stale", "##", "\x1b[0m", "abc#", "#" + typ[:1]}[tp.Draw("n.frontk", 7)]
		if typ == "SUCC" && strings.HasPrefix(front, "#SUCC:") {
			front = "#NUM:stale" // the text in front must not be the expected marker itself
		}
		out = append(out, front...)
		kinds = append(kinds, "front-text")
	}
	nWrap := tp.Pick("n.wraps", 3, 3, 2, 1)
	nStatus := tp.Pick("n.status", 5, 2, 1)
	wrapAt := map[int]bool{}
	statusAt := map[int]bool{}
	for i := 0; i < nWrap; i++ {
		wrapAt[tp.Draw("n.wrapat", len(clean)+1)] = true
	}
	for i := 0; i < nStatus; i++ {
		statusAt[tp.Draw("n.statusat", len(clean)+1)] = true
	}
	for i := 0; i <= len(clean); i++ {
		if statusAt[i] {
			st := vTmuxStatus
			if tp.Bool("n.statuswrap", 300) {
				k := 1 + tp.Draw("n.statuswrapat", len(st)-1)
				st = st[:k] + "\r\n" + st[k:]
				kinds = append(kinds, "wrap-in-status")
			}
			out = append(out, st...)
			kinds = append(kinds, fmt.Sprintf("status@%s", vWhere(i, len(typ)+2, len(clean))))
		}
		if wrapAt[i] {
			out = append(out, '\r', '\n')
			kinds = append(kinds, fmt.Sprintf("wrap@%s", vWhere(i, len(typ)+2, len(clean))))
		}
		if i < len(clean) {
			out = append(out, clean[i])
		}
	}
	out = append(out, '\n')
	return out, kinds
}

func vWhere(i, markerLen, total int) string {
	switch {
	case i == 0:
		return "start"
	case i < markerLen:
		return "marker"
	case i == total:
		return "before-terminator"
	}
	return "payload"
}

func vCSI(tp *verifsim.Tape) string {
	params := []string{"", "0", "1;32", "?25", "2", "38;5;10", "!", "10;20", " "}[tp.Draw("n.csip", 9)]
	final := "mKJABCDhlpqrs"[tp.Draw("n.csif", 13)]
	return "\x1b[" + params + string(final)
}

// vWinNoise renders the line the way the Windows console is known to.
func vWinNoise(tp *verifsim.Tape, typ, payload string) ([]byte, []string) {
	clean := "#" + typ + ":" + payload
	var out []byte
	var kinds []string
	pad := func() {
		out = append(out, []byte(" \t\x08\r")[tp.Draw("n.pad", 4)])
	}
	quiet := false // the previous character was followed by a bare cursor move: no line feed may come before this one
	for i := 0; i < len(clean); i++ {
		c := clean[i]
		k := tp.Pick("n.win", 12, 2, 2, 2, 1, 1)
		if quiet && k >= 3 {
			k = 0
		}
		quiet = false
		switch k {
		case 1:
			out = append(out, vCSI(tp)...)
			kinds = append(kinds, "csi")
		case 2:
			pad()
			kinds = append(kinds, "padding")
		case 3:
			// line feed padding: only where no cursor-position sequence follows before the next character
			out = append(out, '\r', '\n')
			kinds = append(kinds, "crlf")
		case 4:
			if i > 0 {
				// wrap with re-print: the previous character again after CR LF and a cursor move
				prev := clean[i-1]
				out = append(out, '\r', '\n')
				out = append(out, fmt.Sprintf("\x1b[%d;%dH", 2+tp.Draw("n.row", 40), 1+tp.Draw("n.col", 200))...)
				out = append(out, prev)
				kinds = append(kinds, "wrap-reprint")
			}
		case 5:
			if i > 0 {
				// home pre-print: ESC[H y ESC[r;cH ... CR LF x   (x = the real next character)
				y := "XyZ09"[tp.Draw("n.y", 5)]
				out = append(out, "\x1b[H"...)
				out = append(out, y)
				out = append(out, fmt.Sprintf("\x1b[%d;%dH", 2+tp.Draw("n.row2", 40), 1+tp.Draw("n.col2", 200))...)
				out = append(out, '\r', '\n')
				kinds = append(kinds, "home-preprint")
			}
		}
		out = append(out, c)
		// a cursor-position sequence WITHOUT a preceding line feed, followed by a genuine character equal
		// to its predecessor: the character must be kept
		if i+1 < len(clean) && clean[i+1] == c && tp.Bool("n.keep", 500) {
			out = append(out, fmt.Sprintf("\x1b[%d;%dH", 3, 7)...)
			kinds = append(kinds, "cursor-move-no-lf-before-equal-char")
			quiet = true
		}
	}
	out = append(out, '!')
	if tp.Bool("n.winlf", 800) {
		out = append(out, '\n')
	}
	return out, kinds
}

func vScenarioC16(rc *runCtx) {
	if rc.param("relaywin", "0") == "1" {
		vC16RelayWindows(rc)
		return
	}
	tp := rc.tape
	w := rc.w
	win := tp.Bool("c16.win", 500)
	ctrlC := tp.Bool("c16.ctrlc", 120)
	nlines := 1 + tp.Draw("c16.lines", 4)
	type item struct {
		typ, payload string
		noisy        []byte
		kinds        []string
	}
	var items []item
	var stream []byte
	var allKinds []string
	types := []string{"SUCC", "DATA", "NAME", "SIZE", "MD5", "CFG", "NUM", "EXIT"}
	// the two handshake lines are read before anybody knows whether a tmux sits in between: the receive-string
	// operation is then asked for junk tolerance explicitly, the negotiated flag comes later
	handshake := !win && tp.Bool("c16.handshake", 250)
	hsRecord, hsVer, hsProto, hsBuf := false, "", 0, 0
	for i := 0; i < nlines; i++ {
		it := item{typ: types[tp.Draw("c16.typ", len(types))], payload: vProtoPayload(tp, 1+tp.Draw("c16.plen", 80))}
		if handshake && i == 0 {
			it.typ = []string{"ACT", "CFG"}[tp.Draw("c16.hstyp", 2)]
			it.payload = vEncode(tp.Bytes("c16.hsraw", 1+tp.Draw("c16.hslen", 120)))
			if hsRecord = tp.Bool("c16.hsrecord", 600); hsRecord {
				// a genuine record, read with the operation each end uses for it
				hsVer, hsProto = fmt.Sprintf("1.1.%d", tp.Draw("c16.hsver", 90)), 1+tp.Draw("c16.hsproto", 4)
				hsBuf = 1024 * (1 + tp.Draw("c16.hsbuf", 9000))
				var js []byte
				if it.typ == "ACT" {
					js, _ = json.Marshal(map[string]any{"lang": "go", "version": hsVer, "confirm": true, "newline": "\n", "protocol": hsProto, "binary": tp.Bool("c16.hsbin", 500), "support_dir": true})
				} else {
					js, _ = json.Marshal(map[string]any{"lang": "go", "bufsize": hsBuf, "timeout": 20, "protocol": hsProto, "quiet": tp.Bool("c16.hsq", 500)})
				}
				it.payload = vEncode(js)
			}
		}
		if win {
			it.noisy, it.kinds = vWinNoise(tp, it.typ, it.payload)
		} else {
			it.noisy, it.kinds = vTmuxNoise(tp, it.typ, it.payload)
		}
		items = append(items, it)
		stream = append(stream, it.noisy...)
		allKinds = append(allKinds, it.kinds...)
	}
	ctrlAt := -1
	if ctrlC {
		ctrlAt = tp.Draw("c16.ctrlat", len(stream))
		stream = append(append(append([]byte{}, stream[:ctrlAt]...), 0x03), stream[ctrlAt:]...)
	}
	rc.res.ClassKey = fmt.Sprintf("win=%v ctrlc=%v hs=%v %v", win, ctrlC, handshake, vKindSet(allKinds))
	rc.res.Scenario["handshake_line_first"] = handshake
	rc.res.Scenario["reader"] = map[bool]string{true: "windows-console", false: "tmux-junk"}[win]
	rc.res.Scenario["noise"] = vKindSet(allKinds)
	rc.res.Scenario["stream"] = vQuote(stream, 200)
	if ctrlAt >= 0 {
		lo, hi := ctrlAt-40, ctrlAt+30
		if lo < 0 {
			lo = 0
		}
		if hi > len(stream) {
			hi = len(stream)
		}
		rc.res.Scenario["ctrl_context"] = vQuote(stream[lo:hi], 100)
	}

	t := newTransfer(discardWriter{}, nil, false, nil)
	if win {
		t.windowsProtocol = true
	} else if !handshake {
		t.transferConfig.TmuxOutputJunk = true
	}
	type result struct {
		line string
		err  string
	}
	var got []result
	consumerDone := false
	w.Go("consumer", nil, func() {
		for i, it := range items {
			var buf string
			var err error
			if handshake && i == 0 && hsRecord {
				buf = it.payload
				if it.typ == "ACT" {
					var a *transferAction
					if a, err = t.recvAction(); err == nil && (a.Version != hsVer || a.Protocol != hsProto || !a.Confirm) {
						buf = fmt.Sprintf("action read as version %q protocol %d confirm %v", a.Version, a.Protocol, a.Confirm)
					}
				} else {
					var c *transferConfig
					if c, err = t.recvConfig(); err == nil && (c.MaxBufSize != int64(hsBuf) || c.Protocol != hsProto || c.Timeout != 20) {
						buf = fmt.Sprintf("config read as bufsize %d protocol %d timeout %d", c.MaxBufSize, c.Protocol, c.Timeout)
					}
				}
				t.transferConfig.TmuxOutputJunk = true
			} else if handshake && i == 0 {
				var str string
				str, err = t.recvString(it.typ, true, nil)
				if err == nil {
					buf = vEncode([]byte(str))
				}
				t.transferConfig.TmuxOutputJunk = true
			} else {
				buf, err = t.recvCheck(it.typ, false, nil)
			}
			r := result{line: buf}
			if err != nil {
				r.err = err.Error()
			}
			got = append(got, r)
			if err != nil {
				break
			}
		}
		consumerDone = true
	})
	producerDone := false
	w.Go("producer", nil, func() {
		pos := 0
		for pos < len(stream) {
			n := 1 + tp.Draw("c16.seg", 40)
			if tp.Bool("c16.seg1", 300) {
				n = 1
			}
			if pos+n > len(stream) {
				n = len(stream) - pos
			}
			t.addReceivedData(append([]byte(nil), stream[pos:pos+n]...), false)
			pos += n
			if tp.Bool("c16.pause", 200) {
				verifsim.Sleep(time.Millisecond)
			}
		}
		producerDone = true
	})
	w.Run(func() bool { return producerDone && consumerDone })
	if !consumerDone {
		// still waiting although the whole stream has been delivered
		w.Go("tick", nil, func() { verifsim.Sleep(50 * time.Millisecond) })
		w.Run(func() bool { return consumerDone || w.Now() > 40*time.Millisecond })
	}
	// where does the Ctrl-C fall?
	lineOfCtrl := -1
	if ctrlAt >= 0 {
		off := 0
		for i, it := range items {
			end := len(it.noisy)
			if win && it.noisy[end-1] == '\n' {
				end-- // the line is complete at its '!': what follows belongs to the next read
			}
			if ctrlAt < off+end {
				lineOfCtrl = i
				break
			}
			off += len(it.noisy)
		}
		// a Ctrl-C after the terminator of the last line is not inside any line that is read
	}
	for i, it := range items {
		if lineOfCtrl >= 0 && i == lineOfCtrl {
			if i >= len(got) || !strings.Contains(got[i].err, "Interrupted") {
				have := "nothing (still waiting)"
				if i < len(got) {
					have = fmt.Sprintf("%q err=%q", vClip(got[i].line, 60), got[i].err)
				}
				rc.violate("ctrl-c", "C16:ctrl-c-missed:"+rc.res.Scenario["reader"].(string), "a Ctrl-C inside line %d must interrupt, the reader returned %s; stream %s", i, have, vQuote(stream, 240))
			} else {
				rc.res.Nontrivial = true
			}
			return
		}
		if i >= len(got) {
			rc.violate("noise", "C16:never-returned:"+rc.res.Scenario["reader"].(string), "line %d (#%s:%s) was never returned although the whole stream was delivered; noise %v; stream %s", i, it.typ, vClip(it.payload, 40), it.kinds, vQuote(stream, 240))
			return
		}
		if got[i].err != "" || got[i].line != it.payload {
			rc.violate("noise", "C16:wrong-line:"+rc.res.Scenario["reader"].(string)+":"+strings.Join(vKindSet(it.kinds), "+"), "line %d: payload %q of type %s came back as %q err=%q; noise %v; noisy rendering %s",
				i, vClip(it.payload, 90), it.typ, vClip(got[i].line, 90), vClip(got[i].err, 80), it.kinds, vQuote(it.noisy, 300))
			return
		}
	}
	rc.res.Nontrivial = true
	_ = bytes.Equal
}
