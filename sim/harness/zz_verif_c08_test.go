package trzsz

import (
	"fmt"
	"os"
	"path/filepath"
	"strconv"
	"strings"
)

func init() {
	vScenarios["C08"] = vScenarioC08
}

// vScenarioC08: with -y the destination ends up identical to the source whatever was there, and
// the sender never skips more than the longest common prefix of source and old destination.
func vScenarioC08(rc *runCtx) {
	tp := rc.tape
	cfg := vDrawConfig(tp, false)
	cfg.overwrite = true
	cfg.timeout = 20
	cfg.protocol = []int{2, 3, 4, 0}[tp.Draw("c08.proto", 4)]
	cfg.trigVersion = ""
	cfg.bufSize = []string{"", "4k", "64K"}[tp.Pick("c08.buf", 3, 1, 1)]
	big := rc.param("big", "0") == "1"
	var block int64
	if big {
		block = 10 * 1024 * 1024
		cfg.bufSize = ""
	} else {
		block = []int64{1024, 4096, 10000, 65536}[tp.Draw("c08.block", 4)]
	}
	src := filepath.Join(rc.dir, "src")
	dst := filepath.Join(rc.dir, "dst")
	os.MkdirAll(src, 0755)
	os.MkdirAll(dst, 0755)
	nfiles := 1 + tp.Pick("c08.nfiles", 5, 3, 1)
	if big {
		nfiles = 1
	}
	type rel struct {
		name         string
		srcLen       int
		dstLen       int // -1 = absent
		firstDiff    int
		relLen, diff string
	}
	var rels []rel
	var paths []string
	near := func(b int64) int {
		// an offset on, just before or just after a block boundary, or inside a block
		k := int64(1 + tp.Draw("blk", 3))
		switch tp.Draw("near", 5) {
		case 0:
			return int(k * b)
		case 1:
			return int(k*b - 1)
		case 2:
			return int(k*b + 1)
		case 3:
			return int(k*b - b/2)
		default:
			return int(tp.Draw("anyoff", int(3*b)+2))
		}
	}
	for i := 0; i < nfiles; i++ {
		name := fmt.Sprintf("f%d.bin", i)
		var srcLen int
		switch tp.Pick("srclen", 1, 1, 6) {
		case 0:
			srcLen = 0
		case 1:
			srcLen = 1 + tp.Draw("small", 600)
		default:
			srcLen = near(block)
		}
		data, _ := vGenContent(tp, srcLen)
		vWriteFile(filepath.Join(src, name), data)
		paths = append(paths, filepath.Join(src, name))
		r := rel{name: name, srcLen: srcLen, dstLen: -1, firstDiff: -1}
		switch tp.Pick("dstrel", 1, 1, 2, 2, 2) {
		case 0:
			r.relLen = "absent"
		case 1:
			r.relLen = "empty"
			r.dstLen = 0
		case 2:
			r.relLen = "shorter"
			if srcLen > 0 {
				r.dstLen = tp.Draw("shorter", srcLen)
			} else {
				r.dstLen = 0
			}
		case 3:
			r.relLen = "equal"
			r.dstLen = srcLen
		default:
			r.relLen = "longer"
			r.dstLen = srcLen + 1 + tp.Draw("longer", int(block)+3)
		}
		if r.dstLen >= 0 {
			old := make([]byte, r.dstLen)
			n := copy(old, data)
			tail, _ := vGenContent(tp, r.dstLen-n)
			copy(old[n:], tail)
			// first differing offset: none / 0 / around a block boundary / anywhere
			common := n
			r.diff = "none"
			if common > 0 {
				switch tp.Pick("diffat", 3, 1, 3, 2) {
				case 1:
					r.firstDiff = 0
					r.diff = "at0"
				case 2:
					d := near(block)
					if d < common {
						r.firstDiff = d
						r.diff = "nearblock"
					}
				case 3:
					r.firstDiff = tp.Draw("diffany", common)
					r.diff = "any"
				}
			}
			if r.firstDiff >= 0 {
				old[r.firstDiff] ^= 0x5a
				// sometimes more damage further on
				if tp.Bool("moredmg", 300) && r.firstDiff+1 < common {
					old[r.firstDiff+1+tp.Draw("dmg2", common-r.firstDiff-1)] ^= 0xff
				}
			}
			vWriteFile(filepath.Join(dst, name), old)
		}
		rels = append(rels, r)
	}
	vWriteFile(filepath.Join(dst, "bystander.bin"), []byte("not part of the transfer"))
	oldDst := map[string][]byte{}
	for _, r := range rels {
		if b, err := os.ReadFile(filepath.Join(dst, r.name)); err == nil {
			oldDst[r.name] = b
		}
	}

	o := cfg.opts()
	o.srcPaths = paths
	o.dstDir = dst
	o.kHash = block
	o.profile = vDrawProfile(tp, cfg.timeout)
	if big {
		// 20-30 MiB files: keep the run short in steps and simulated time
		o.profile.bytesPerMs, o.profile.latPm = 0, 0
		o.flags = cfg.flags()
	}
	var relKeys []string
	for _, r := range rels {
		relKeys = append(relKeys, r.relLen+"/"+r.diff)
	}
	rc.res.ClassKey = fmt.Sprintf("%s blk%d %v", cfg.key(), block, relKeys)
	rc.res.Scenario["config"] = cfg.key()
	rc.res.Scenario["block"] = block
	rc.res.Scenario["relations"] = relKeys
	rc.res.Scenario["flags"] = strings.Join(o.flags, " ")
	var lens []string
	for _, r := range rels {
		lens = append(lens, fmt.Sprintf("%d over %d diff@%d", r.srcLen, r.dstLen, r.firstDiff))
	}
	rc.res.Scenario["lengths"] = lens

	before := vSnapshot(dst)
	x := newXferWorld(rc, o)
	x.start()
	rc.w.Run(x.finished)
	rep := x.report()
	// the transferred names are being replaced: exclude them from the "before" view used by the
	// extra/vanished check, keep the bystander
	vCheckFidelity(rc, x, rep, before, true)
	if rc.res.Class != "ok" {
		if rc.res.Kind == "no-success" || rc.res.Kind == "hang" {
			for _, r := range rels {
				if r.srcLen == 0 && r.dstLen > 0 {
					rc.res.Sig = "C08:empty-source-over-nonempty"
				}
			}
		}
		return
	}
	after := vSnapshot(dst)
	if !before["bystander.bin"].untouched(after["bystander.bin"]) {
		rc.violate("touched", "C08:bystander", "a file outside the transferred names was touched")
		return
	}
	// skip bound: announced remaining size vs longest common prefix
	sizes := []int64{}
	for _, m := range rep.clientMsgs {
		if !o.upload {
			break
		}
		if m.Typ == "SIZE" {
			if v, err := strconv.ParseInt(m.Payload, 10, 64); err == nil {
				sizes = append(sizes, v)
			}
		}
	}
	if !o.upload {
		for _, m := range rep.serverMsgs {
			if m.Typ == "SIZE" {
				if v, err := strconv.ParseInt(m.Payload, 10, 64); err == nil {
					sizes = append(sizes, v)
				}
			}
		}
	}
	proto := 0
	if rep.cfg != nil {
		if p, ok := rep.cfg["protocol"].(float64); ok {
			proto = int(p)
		}
	}
	rc.res.Scenario["sizes_announced"] = sizes
	// protocol 3 announces the full size first and the remaining size after the hash exchange;
	// the last SIZE per file is the remaining length. Walk files in order.
	si := 0
	for _, r := range rels {
		if si >= len(sizes) {
			break
		}
		old, had := oldDst[r.name]
		resumable := had && len(old) > 0 && proto >= 3
		if resumable && proto == 3 {
			si++ // full size announced before the hash exchange
		}
		if si >= len(sizes) {
			break
		}
		remaining := sizes[si]
		si++
		skipped := int64(r.srcLen) - remaining
		srcData, _ := os.ReadFile(filepath.Join(rc.dir, "src", r.name))
		lcp := int64(vFirstDiff(srcData, old))
		if !had {
			lcp = 0
		}
		if skipped < 0 || skipped > lcp {
			rc.violate("overskip", "C08:overskip", "file %s: sender skipped %d bytes but source and old destination share only %d (src %d, old dst %d, block %d, protocol %d)",
				r.name, skipped, lcp, r.srcLen, len(old), block, proto)
			return
		}
		if skipped > 0 {
			rc.w.Probe("resume-skipped")
		}
		if skipped > 0 && skipped%block != 0 && skipped != int64(r.srcLen) && skipped != int64(len(old)) {
			rc.w.Probe("skip-not-block-aligned")
		}
	}
	if len(rc.w.Probes) > 0 {
		rc.res.Probes = rc.w.Probes
	}
}
