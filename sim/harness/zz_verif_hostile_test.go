package trzsz

import (
	"bytes"
	"encoding/json"
	"fmt"
	"os"
	"path/filepath"
	"regexp"
	"runtime"
	"strings"
	"time"

	"github.com/trzsz/trzsz-go/internal/verifsim"
)

func init() {
	vScenarios["C09"] = vScenarioC09
	vScenarios["C12"] = vScenarioC12
}

// vLineEdit rewrites whole protocol lines passing through a link. edit gets the type, the payload
// (without the newline marker) and the ordinal of this type on this link; it returns the new
// payload and whether to replace. Only chunks that are exactly one typed line (optionally
// followed by a sized binary block) are candidates, which is how both ends write every line
// except split base64 data.
func vLineEdit(edit func(typ, payload string, nth int) (string, bool)) func(l *verifsim.Link, data []byte) []byte {
	count := map[string]int{}
	return func(l *verifsim.Link, data []byte) []byte {
		if len(data) < 6 || data[0] != '#' {
			return data
		}
		m := vTypRe.FindSubmatch(data[:vMin(len(data), 6)])
		if m == nil {
			return data
		}
		nl := bytes.IndexByte(data, '\n')
		if nl < 0 {
			return data
		}
		typ := string(m[1])
		payload := data[len(m[0]):nl]
		win := false
		if len(payload) > 0 && payload[len(payload)-1] == '!' {
			win = true
			payload = payload[:len(payload)-1]
		}
		count[typ]++
		np, ok := edit(typ, string(payload), count[typ])
		if !ok {
			return data
		}
		var out []byte
		if strings.HasPrefix(np, vWholeLine) {
			// the marker and type are replaced as well
			out = append(out, np[len(vWholeLine):]...)
		} else {
			out = append(out, m[0]...)
			out = append(out, np...)
		}
		if win {
			out = append(out, '!')
		}
		out = append(out, data[nl:]...)
		return out
	}
}

// vWholeLine in front of an edit's result: the result replaces the line's marker and type too.
const vWholeLine = "\x00whole-line\x00"

// vHostileLineShape is a line that lost or garbled its framing: no '#', no type, no colon, colon first, marker only.
func vHostileLineShape(tp *verifsim.Tape, typ, payload string) string {
	shapes := []string{":" + typ + ":" + payload, typ + ":" + payload, "#" + typ + payload, "#:" + payload, ":", "#", "", "::", "#" + typ + ":", "#" + typ, ":" + payload,
		"##" + typ + ":" + payload, "#" + typ + "::" + payload,
		// console decoration in front of the line (what a Windows console emits when it repaints): newline, cursor address
		"\r\n\x1b[25;1H#" + typ + ":" + payload, "\x1b[1;1H#" + typ + ":" + payload, "\n\x1b[2;3H\x1b[K#" + typ + ":" + payload, "\r\n\x1b[25;1H", "\x1b[25;1H\r\n#" + typ + ":" + payload, " #" + typ + ":" + payload, "#" + strings.ToLower(typ) + ":" + payload, payload, "#" + typ + ":" + payload + ":" + payload, ":#" + typ + ":"}
	return vWholeLine + shapes[tp.Draw("h.shape", len(shapes))]
}

// ---------------------------------------------------------------------------------------------
// C09: path containment

var vHostileNames = []string{"../evil", "..", "../../evil2", "a/../../evil3", "sub/../../evil4", "/abs/evil5", "", ".", "x/", "./../evil6",
	"..\\evil7", "ok/../../../evil8", "dir/evil9", "~/evil10", strings.Repeat("L", 300), "../sibling/canary.txt", "../canary.txt"}

var vHostileLists = [][]string{{"..", "evil"}, {"sub", "..", "..", "evil2"}, {"a/../../evil3"}, {"/abs", "evil4"}, {"", "evil5"}, {"x", ""}, {"x", "..", "..", "evil6"},
	{".", "evil7"}, {"..", "sibling", "canary.txt"}, {"top", "../../evil8"}, {"..", "..", "evil9"}, {"..", "canary.txt"}, {"..\\evil10"}, {"top", "/abs/evil11"}, {"top", "..", "..", "sibling", "new"},
	// lists that stay inside when joined as sent, but whose first element is deeper than the one name the receiver puts in its place
	{"a/b/c", "..", "..", "evil12"}, {"a/b", "..", "..", "canary.txt"}, {"x/y/z/w", "..", "..", "..", "sibling", "canary.txt"}, {"a/./b/c", "..", "..", "evil13"},
	// elements that are not ".." as sent but become it under any "cleaning" of the name (control characters, blanks, trailing dots)
	{".\x7f.", "canary.txt"}, {"pkg", ".\x01.", "\x1b..", "evil14"}, {"..\t", "evil15"}, {"top", "..\r", "..\n", "sibling", "canary.txt"}, {".\x00.", "evil16"}, {"top", ".. ", " ..", "evil17"},
	// a last element in the other system's notation: an ordinary name here, a climb after any "translation"
	{"top", "..\\..\\evil18"}, {"d", "..\\canary.txt"}, {"a", "b", "..\\..\\..\\sibling\\canary.txt"}, {"top", "..\\..\\sibling\\new"}}

// vHostileList composes a path list from suspicious elements (in addition to the fixed lists).
func vHostileList(tp *verifsim.Tape) []string {
	elems := []string{"..", ".", "", "./..", ".//..", "../", "..//", "a/..", "/", "/abs", "..\\", "sub", "x/../..", "./.", "../.", "...", " ..", ".. ", "..\x00", ".\x7f.", "\x1b..", "..\t", ".\x01.", "..\r", "\x08.."}
	n := 1 + tp.Draw("hl.n", 4)
	var out []string
	if tp.Bool("hl.deepfirst", 250) {
		// a first element with separators inside: as deep as the climbs that follow, when joined as sent
		out = append(out, []string{"a/b/c", "a/b", "x/y/z/w", "a//b/c", "a/./b"}[tp.Draw("hl.deep", 5)])
		for k := 1 + tp.Draw("hl.climbs", 3); k > 0; k-- {
			out = append(out, "..")
		}
		n = tp.Draw("hl.n2", 2)
	}
	for i := 0; i < n; i++ {
		out = append(out, elems[tp.Draw("hl.elem", len(elems))])
	}
	return append(out, []string{"victim.txt", "canary.txt", "evil", "sibling"}[tp.Draw("hl.last", 4)])
}

// vC09StopDelete: a transfer into a destination that holds nothing else, below ancestors that hold nothing else,
// stopped with "stop and delete" at a tape-chosen moment. Deleting what the transfer created must not reach the
// chosen directory itself or anything above it.
func vC09StopDelete(rc *runCtx) {
	tp := rc.tape
	cfg := vDrawConfig(tp, false)
	cfg.timeout = 5
	cfg.trigVersion = ""
	cfg.bufSize = []string{"1K", "4k"}[tp.Draw("c09s.buf", 2)]
	sandbox := filepath.Join(rc.dir, "sandbox")
	dst := filepath.Join(sandbox, "a", "b", "dst")
	src := filepath.Join(rc.dir, "src")
	os.MkdirAll(dst, 0755)
	vWriteFile(filepath.Join(sandbox, "canary.txt"), []byte("canary outside the destination"))
	spec := vGenSources(rc, src, 3, cfg.dirMode, 60000, !cfg.overwrite)
	o := cfg.opts()
	o.srcPaths, o.dstDir = spec.paths, dst
	o.profile = transportProfile{segPm: 200, coalPm: 100, latPm: 300, latMax: 20 * time.Millisecond}
	o.simCap = 10 * time.Minute
	x := newXferWorld(rc, o)
	armed := vArmAfterCfg(x)
	stopped := false
	vOnChunk(rc, x, armed, []int{60, 200, 500}[tp.Draw("c09s.rate", 3)], func() {
		stopped = true
		rc.fault("stop-and-delete")
		rc.w.Go("api", x.client, func() { x.filter.StopTransferringFiles(true) })
	})
	rc.res.ClassKey = "stopdelete " + cfg.key()
	rc.res.Scenario["config"] = cfg.key()
	rc.res.Scenario["flags"] = strings.Join(o.flags, " ")
	before := vSnapshot(sandbox)
	x.start()
	rc.w.Run(x.finished)
	if rc.w.StepCap || !stopped {
		return
	}
	x.settle(2 * time.Second)
	for _, d := range []string{dst, filepath.Dir(dst), filepath.Dir(filepath.Dir(dst))} {
		if st, err := os.Stat(d); err != nil || !st.IsDir() {
			rel, _ := filepath.Rel(sandbox, d)
			rc.violate("escape", "C09:destination-removed", "after \"stop and delete\" the directory %q - the chosen destination or one above it, none of them created by the transfer - is gone", rel)
			return
		}
	}
	vCheckContained(rc, before, sandbox, filepath.Join("a", "b", "dst"), "(no hostile name: stop and delete)")
	if rc.res.Class == "ok" {
		rc.res.Nontrivial = true
	}
}

// vC09ChosenFolder: no hostile name at all; what is odd is the chosen folder. Either its name contains a '$' (a
// literal character in a directory name: files go into that directory, nowhere else), or no folder is configured
// and no dialog program exists to ask for one (the download is refused: nothing is created anywhere, least of
// all in the client's working directory).
func vC09ChosenFolder(rc *runCtx) {
	tp := rc.tape
	cfg := vDrawConfig(tp, false)
	cfg.upload, cfg.timeout, cfg.trigVersion = false, 5, ""
	sandbox := filepath.Join(rc.dir, "sandbox")
	kind := []string{"dollar-name", "no-folder-no-dialog"}[tp.Draw("c09f.kind", 2)]
	leaf := []string{"$incoming", "in$box", "${downloads}", "$HOME", "a$"}[tp.Draw("c09f.leaf", 5)]
	dst := filepath.Join(sandbox, "client", leaf)
	src := filepath.Join(rc.dir, "src")
	os.MkdirAll(dst, 0755)
	os.MkdirAll(filepath.Join(sandbox, "client", "in"), 0755) // what "in$box" becomes when $box is expanded away
	vWriteFile(filepath.Join(sandbox, "canary.txt"), []byte("canary outside the destination"))
	spec := vGenSources(rc, src, 2, cfg.dirMode, 20000, !cfg.overwrite)
	o := cfg.opts()
	o.srcPaths, o.dstDir = spec.paths, dst
	o.noDefaultPath = kind == "no-folder-no-dialog"
	o.profile = transportProfile{segPm: 200, coalPm: 100}
	o.simCap = 10 * time.Minute
	rc.res.ClassKey = "chosen-folder " + kind + " " + cfg.key()
	rc.res.Scenario["config"] = cfg.key()
	rc.res.Scenario["chosen_folder"] = map[string]string{"dollar-name": dst, "no-folder-no-dialog": "(none, and no dialog program)"}[kind]
	rc.fault("odd-chosen-folder-" + kind)
	before := vSnapshot(sandbox)
	wd, _ := os.Getwd()
	wdBefore := map[string]bool{}
	if ents, err := os.ReadDir(wd); err == nil {
		for _, e := range ents {
			wdBefore[e.Name()] = true
		}
	}
	x := newXferWorld(rc, o)
	x.start()
	rc.w.Run(x.finished)
	if rc.w.StepCap {
		return
	}
	rep := x.report()
	if kind == "dollar-name" {
		rel, _ := filepath.Rel(sandbox, dst)
		vCheckContained(rc, before, sandbox, rel, "(no hostile name: the chosen folder is "+leaf+")")
		if rc.res.Class == "ok" {
			vCheckFidelity(rc, x, rep, vSnapshot(filepath.Join(rc.dir, "nonexistent")), true)
			if rc.res.Class == "violation" {
				rc.res.Sig = strings.Replace(rc.res.Sig, "C01:", "C09:chosen-folder:", 1)
			}
		}
	} else {
		if rep.clientOK || rep.serverOK {
			rc.violate("escape", "C09:saved-without-a-folder", "no download folder was configured and no dialog program exists, yet the download was reported as saved (client ok=%v, server ok=%v)", rep.clientOK, rep.serverOK)
			return
		}
		if ents, err := os.ReadDir(wd); err == nil {
			for _, e := range ents {
				if !wdBefore[e.Name()] && !strings.HasSuffix(e.Name(), ".progress") {
					rc.violate("escape", "C09:created-in-working-directory", "no download folder was chosen, yet %q appeared in the client's working directory %q", e.Name(), wd)
					os.RemoveAll(filepath.Join(wd, e.Name()))
					return
				}
			}
		}
		vCheckContained(rc, before, sandbox, filepath.Join("client", "none-chosen"), "(no folder chosen)")
	}
	if rc.res.Class == "ok" {
		rc.res.Nontrivial = true
	}
}

func vScenarioC09(rc *runCtx) {
	if rc.param("mode", "system") == "archive" {
		vC09Archive(rc)
		return
	}
	if rc.tape.Bool("c09.chosenfolder", 100) {
		vC09ChosenFolder(rc)
		return
	}
	if rc.tape.Bool("c09.stopdelete", 100) {
		vC09StopDelete(rc)
		return
	}
	tp := rc.tape
	cfg := vDrawConfig(tp, false)
	cfg.timeout = 5
	cfg.trigVersion = ""
	cfg.bufSize = ""
	sandbox := filepath.Join(rc.dir, "sandbox")
	dst := filepath.Join(sandbox, "dst")
	src := filepath.Join(rc.dir, "src")
	os.MkdirAll(dst, 0755)
	os.MkdirAll(filepath.Join(sandbox, "sibling"), 0755)
	vWriteFile(filepath.Join(sandbox, "canary.txt"), []byte("canary outside the destination"))
	vWriteFile(filepath.Join(sandbox, "sibling", "canary.txt"), []byte("sibling canary"))
	vWriteFile(filepath.Join(dst, "inside.txt"), []byte("inside"))
	spec := vGenSources(rc, src, 3, cfg.dirMode, 20000, !cfg.overwrite)
	o := cfg.opts()
	o.srcPaths = spec.paths
	o.dstDir = dst
	o.profile = transportProfile{segPm: 200, coalPm: 100}
	o.simCap = 10 * time.Minute
	x := newXferWorld(rc, o)
	// the sender->receiver direction carries the names
	l := x.up[0]
	if !cfg.upload {
		l = x.downLast()
	}
	target := 1 + tp.Draw("c09.nth", 3)
	var injected string
	prev := l.Mangle
	ed := vLineEdit(func(typ, payload string, nth int) (string, bool) {
		if typ != "NAME" || nth != target && !(nth == 1 && injected == "" && target > 1 && tp.Bool("c09.first", 300)) {
			return "", false
		}
		raw, err := vDecode(payload)
		if err != nil {
			return "", false
		}
		var m map[string]any
		if json.Unmarshal(raw, &m) == nil && m != nil && m["path_name"] != nil && tp.Bool("c09.bare", 150) {
			// a bare (old-style) name where a record is expected
			name := vHostileNames[tp.Draw("c09.name", len(vHostileNames))]
			injected = name
			rc.fault("hostile-name-bare-for-record")
			return vEncode([]byte(name)), true
		}
		if json.Unmarshal(raw, &m) == nil && m != nil && m["path_name"] != nil {
			lst := vHostileLists[tp.Draw("c09.list", len(vHostileLists))]
			if tp.Bool("c09.compose", 500) {
				lst = vHostileList(tp)
			}
			if tp.Bool("c09.keepdepth", 300) {
				// keep the original first element and go astray below it
				if orig, ok := m["path_name"].([]any); ok && len(orig) > 0 {
					if s, ok := orig[0].(string); ok {
						lst = append([]string{s}, lst...)
					}
				}
			}
			m["path_name"] = lst
			js, _ := json.Marshal(m)
			injected = string(js)
			rc.fault("hostile-name-json")
			return vEncode(js), true
		}
		name := vHostileNames[tp.Draw("c09.name", len(vHostileNames))]
		if tp.Bool("c09.composename", 400) {
			name = strings.Join(vHostileList(tp), "/")
		}
		injected = name
		rc.fault("hostile-name-plain")
		return vEncode([]byte(name)), true
	})
	l.Mangle = func(ll *verifsim.Link, d []byte) []byte {
		if prev != nil {
			d = prev(ll, d)
		}
		return ed(ll, d)
	}
	rc.res.Scenario["config"] = cfg.key()
	rc.res.Scenario["flags"] = strings.Join(o.flags, " ")
	before := vSnapshot(sandbox)
	x.start()
	rc.w.Run(x.finished)
	rep := x.report()
	rc.res.Scenario["injected"] = vClip(injected, 120)
	rc.res.ClassKey = fmt.Sprintf("%s inj=%s", cfg.key(), vClip(injected, 40))
	rc.res.Scenario["client_fail"] = vClip(rep.clientFail, 120)
	rc.res.Scenario["server_fail"] = vClip(rep.serverFail, 120)
	if injected == "" {
		return
	}
	vCheckContained(rc, before, sandbox, "dst", injected)
	if rc.res.Class == "ok" {
		names := rep.clientNames
		if len(names) == 0 {
			names = rep.serverNames
		}
		for _, n := range names {
			p := filepath.Clean(filepath.Join(dst, n))
			if p != dst && !strings.HasPrefix(p, dst+string(os.PathSeparator)) {
				rc.violate("escape", "C09:reported-outside", "a name outside the destination was reported as saved: %q", n)
				return
			}
		}
		rc.res.Nontrivial = true
	}
}

// vCheckContained: nothing outside sandbox/<dstName> was created, changed or removed.
func vCheckContained(rc *runCtx, before vSnap, sandbox, dstName, injected string) {
	after := vSnapshot(sandbox)
	inside := func(k string) bool { return k == dstName || strings.HasPrefix(k, dstName+string(os.PathSeparator)) }
	for _, k := range after.keys() {
		if inside(k) {
			continue
		}
		b, was := before[k]
		if !was {
			rc.violate("escape", "C09:created-outside", "the peer-supplied name %q created %q outside the destination directory", vClip(injected, 80), k)
			return
		}
		if !b.untouched(after[k]) {
			rc.violate("escape", "C09:modified-outside", "the peer-supplied name %q modified %q outside the destination directory", vClip(injected, 80), k)
			return
		}
	}
	for _, k := range before.keys() {
		if inside(k) {
			continue
		}
		if _, ok := after[k]; !ok {
			rc.violate("escape", "C09:removed-outside", "the peer-supplied name %q removed %q outside the destination directory", vClip(injected, 80), k)
			return
		}
	}
}

// vC09Archive: hostile entry headers inside an archive stream, fed to the real archive writer.
func vC09Archive(rc *runCtx) {
	tp := rc.tape
	sandbox := filepath.Join(rc.dir, "sandbox")
	dst := filepath.Join(sandbox, "dst")
	os.MkdirAll(dst, 0755)
	os.MkdirAll(filepath.Join(sandbox, "sibling"), 0755)
	vWriteFile(filepath.Join(sandbox, "canary.txt"), []byte("canary outside the destination"))
	vWriteFile(filepath.Join(sandbox, "sibling", "canary.txt"), []byte("sibling canary"))
	before := vSnapshot(sandbox)
	recv := newTransfer(discardWriter{}, nil, false, nil)
	recv.transferConfig.Protocol = kProtocolVersion4
	recv.transferConfig.Directory = true
	recv.transferConfig.Overwrite = tp.Bool("c09a.y", 300)
	top := &sourceFile{PathID: 0, RelPath: []string{"tree"}, IsDir: true, Archive: true}
	fw, _, err := recv.createDirOrFile(dst, top, true)
	if err != nil {
		rc.res.Class = "error"
		rc.res.Msg = err.Error()
		return
	}
	lst := vHostileLists[tp.Draw("c09a.list", len(vHostileLists))]
	if tp.Bool("c09a.compose", 500) {
		lst = vHostileList(tp)
	}
	if tp.Bool("c09a.undertop", 600) {
		lst = append([]string{"tree"}, lst...)
	}
	isDir := tp.Bool("c09a.dir", 300)
	body := []byte("payload of the hostile entry")
	hdr := map[string]any{"path_id": 0, "path_name": lst, "is_dir": isDir, "size": len(body)}
	if isDir {
		hdr["size"] = 0
	}
	js, _ := json.Marshal(hdr)
	stream := append([]byte(vEncode(js)), '\n')
	if !isDir {
		stream = append(stream, body...)
	}
	injected := string(js)
	rc.fault("hostile-archive-header")
	werr := writeAll(fw, stream)
	fw.Close()
	rc.res.Scenario["injected"] = injected
	rc.res.Scenario["write_error"] = fmt.Sprint(werr)
	rc.res.ClassKey = "archive " + vClip(injected, 60)
	vCheckContained(rc, before, sandbox, "dst", injected)
	if rc.res.Class == "ok" {
		for _, p := range recv.createdFiles {
			rel, err := filepath.Rel(dst, p)
			if err != nil || rel == ".." || strings.HasPrefix(rel, ".."+string(os.PathSeparator)) {
				rc.violate("escape", "C09:created-list-outside", "createdFiles lists %q, outside the destination", p)
				return
			}
		}
		rc.res.Nontrivial = true
	}
}

type discardWriter struct{}

func (discardWriter) Write(p []byte) (int, error) { return len(p), nil }

// ---------------------------------------------------------------------------------------------
// C12: hostile field values

var vHostileNums = []string{"-1", "0", "1", "2147483647", "2147483648", "4294967296", "4611686018427387904", "9223372036854775807", "9223372036854775808",
	"-9223372036854775808", "abc", "", "1e9", "999999999999999999999999999999", " 5", "5 ", "0x10", "3000000000", "-0", "+7"}

func vHostileNumFor(tp *verifsim.Tape, orig string) string {
	if tp.Bool("h.near", 300) {
		var v int64
		if _, err := fmt.Sscan(orig, &v); err == nil {
			return fmt.Sprint(v + int64(tp.Draw("h.delta", 3)) - 1 + int64(tp.Draw("h.sign", 2))*2 - 1)
		}
	}
	return vHostileNums[tp.Draw("h.num", len(vHostileNums))]
}

func vHostileJSON(tp *verifsim.Tape, raw []byte) []byte {
	var m map[string]any
	if json.Unmarshal(raw, &m) != nil || m == nil {
		return []byte(`{"x":`)
	}
	keys := vSortedKeys(m)
	if _, isCfg := m["escape_chars"]; (isCfg || m["bufsize"] != nil) && tp.Bool("h.esctable", 450) {
		// the announced escape table is a structure of its own: entries of the wrong arity, length or type
		shapes := []string{`[["~",""]]`, `[["",""]]`, `[["~"]]`, `[[]]`, `[["~","\u00ee"]]`, `[["~","\u00ee\u00ee\u00ee"]]`, `[[1,2]]`, `"table"`, `[["ab","\u00eec"]]`, `[null]`, `[["~",null]]`,
			`[["~","\u00ee1"],["~","\u00ee2"]]`, `[["\u00ee","\u00ee1"],["~","\u00ee1"]]`, `[["~","x1"]]`, `[["~","\u00ee1","extra"]]`, `{}`, `[["\ud800","\u00ee1"]]`, `[["€","\u00ee1"]]`, `[["~","\u00ee€"]]`}
		m["escape_chars"] = json.RawMessage(shapes[tp.Draw("h.escshape", len(shapes))])
		js, err := json.Marshal(m)
		if err == nil {
			return js
		}
	}
	switch tp.Draw("h.json", 6) {
	case 0: // truncated JSON
		if len(raw) > 2 {
			return raw[:1+tp.Draw("h.trunc", len(raw)-1)]
		}
		return []byte("{")
	case 1: // wrong type for one field
		if len(keys) > 0 {
			k := keys[tp.Draw("h.key", len(keys))]
			m[k] = []any{"wrong", map[string]any{"type": true}, nil, 3.5}[tp.Draw("h.wrong", 4)]
		}
	case 2: // boundary number for one numeric field
		var nums []string
		for _, k := range keys {
			if _, ok := m[k].(float64); ok {
				nums = append(nums, k)
			}
		}
		if len(nums) > 0 {
			k := nums[tp.Draw("h.numkey", len(nums))]
			m[k] = json.RawMessage([]string{"-1", "0", "2147483648", "4611686018427387904", "9223372036854775807", "1e30", "-9223372036854775808", "3000000000", "0.5"}[tp.Draw("h.numval", 9)])
		} else if len(keys) > 0 {
			m[keys[0]] = -1
		}
	case 3: // not an object
		return [][]byte{[]byte("[]"), []byte("null"), []byte("5"), []byte(`"str"`), []byte("{}")}[tp.Draw("h.notobj", 5)]
	case 4: // drop a field
		if len(keys) > 0 {
			delete(m, keys[tp.Draw("h.drop", len(keys))])
		}
	default: // hostile values for fields this implementation knows
		vHostileKnown(tp, m)
	}
	js, err := json.Marshal(m)
	if err != nil {
		return []byte("{}")
	}
	return js
}

// vHostileKnown puts boundary values into one or two fields this implementation knows (all at once, the first
// bad one would hide the others).
func vHostileKnown(tp *verifsim.Tape, m map[string]any) {
	{
		known := [][2]string{{"size", "4611686018427387904"}, {"size", "-1"}, {"step", "-5"}, {"step", "70368744177664"}, {"step", "4611686018427387904"}, {"step", "3000000000"}, {"step", "0"}, {"bufsize", "-1"}, {"bufsize", "0"}, {"bufsize", "3"}, {"bufsize", "1"},
			{"bufsize", "-4611686018427387904"}, {"path_name", "[]"}, {"escape_chars", `[["a"],5]`}, {"timeout", "-1"}, {"timeout", "9223372036854775807"}, {"protocol", "-1"},
			{"protocol", "2147483648"}, {"tmux_pane_width", "-1"}, {"tmux_pane_width", "2147483647"}, {"perm", "4294967296"}}
		for i := 1 + tp.Draw("h.knownn", 2); i > 0; i-- {
			kv := known[tp.Draw("h.known", len(known))]
			m[kv[0]] = json.RawMessage(kv[1])
		}
	}
}

func vHostileEncoded(tp *verifsim.Tape, payload string) string {
	raw, err := vDecode(payload)
	switch tp.Draw("h.enc", 6) {
	case 0: // truncated base64
		if len(payload) > 1 {
			return payload[:tp.Draw("h.b64cut", len(payload))]
		}
		return ""
	case 1: // characters outside the alphabet
		return payload[:len(payload)/2] + "*?" + payload[len(payload)/2:]
	case 2: // valid base64 of something that is not zlib
		return "bm90IHpsaWIgYXQgYWxs"
	case 3: // zlib of truncated content
		if err == nil && len(raw) > 1 {
			return vEncode(raw[:tp.Draw("h.rawcut", len(raw))])
		}
		return vEncode(nil)
	default:
		if err == nil {
			return vEncode(vHostileJSON(tp, raw))
		}
		return "####"
	}
}

var vDataSizeLine = regexp.MustCompile(`(?:^|\n)#DATA:(\d{1,10})\n`)

func vScenarioC12(rc *runCtx) {
	switch rc.param("mode", "fields") {
	case "archive":
		vC12Archive(rc)
		return
	case "terminal":
		vC12Terminal(rc)
		return
	}
	tp := rc.tape
	if rc.param("relayhs", "") != "1" && tp.Bool("c12.cancelrelay", 50) {
		vC12CancelThroughRelay(rc)
		return
	}
	cfg, o, _ := vSmallXfer(rc, []int{2, 5})
	// campaign: a server that first announces an enormous buffer size (what the receiver's own chunk-size bound
	// is derived from) and then sends data chunks with enormous length fields
	hugeBuf := rc.param("relayhs", "") != "1" && tp.Bool("c12.hugebuf", 120)
	if hugeBuf {
		cfg.upload = false
		cfg.binary = true
		cfg.relays = 0
		o2 := cfg.opts()
		o2.srcPaths, o2.dstDir, o2.kHash, o2.profile, o2.simCap = o.srcPaths, o.dstDir, o.kHash, o.profile, o.simCap
		o = o2
	}
	relayhs := rc.param("relayhs", "") == "1"
	if o.relays == 0 && (relayhs || tp.Bool("c12.addrelay", 250)) {
		cfg.relays, o.relays = 1, 1
	}
	// the progress display is part of the attack surface
	if tp.Bool("c12.progress", 600) {
		cfg.quiet = false
		o.flags = cfg.flags()
	}
	o.cols = int32([]int{80, 40, 20, 6, -1}[tp.Draw("c12.cols", 5)]) // -1: an embedding program that never told the width
	// the attacked side may be one that reads its lines the Windows-console way
	if !hugeBuf && o.relays == 0 && !cfg.tunnel && tp.Bool("c12.windows", 150) {
		if tp.Bool("c12.winsrv", 500) {
			cfg.srvWindows, o.srvWindows = true, true
		} else {
			cfg.cliWindows, o.cliWindows = true, true
		}
	}
	// binary mode: a raw block whose last byte is the escape leader (half an escape pair at the very end); every
	// protocol version has its own reader for such blocks
	leaderTail := cfg.binary && !cfg.tunnel && !hugeBuf && !relayhs && tp.Bool("c12.leadertail", 150)
	if leaderTail {
		rc.fault("leadertail-run")
		cfg.protocol = 1 + tp.Draw("c12.leadertailproto", 4)
		cfg.trigVersion = ""
		o2 := cfg.opts()
		cfg.relays = 0
		o2.srcPaths, o2.dstDir, o2.kHash, o2.profile, o2.simCap, o2.cols, o2.relays = o.srcPaths, o.dstDir, o.kHash, o.profile, o.simCap, o.cols, 0
		o2.cliWindows, o2.srvWindows = o.cliWindows, o.srvWindows
		o = o2
	}
	x := newXferWorld(rc, o)
	w := rc.w
	dir := tp.Draw("c12.dir", 2) // 0: attack the server (edit client->server), 1: attack the client
	l := x.upLast()
	if dir == 1 {
		l = x.down[0]
	}
	if hugeBuf {
		dir, l = 1, x.down[0]
	}
	if !hugeBuf && o.relays > 0 && (relayhs || tp.Bool("c12.relay", 600)) {
		// a relay reads both ends' handshake lines: hostile server output into the relay, or a hostile client
		dir = 2 + tp.Draw("c12.relaydir", 2)
		l = x.downLast()
		if dir == 3 {
			l = x.up[0]
		}
	}
	unknownWidth := o.cols < 0 && !hugeBuf && !leaderTail && dir < 2
	if unknownWidth {
		// the width of the terminal was never told: what the peer says about a pane is all the client has
		dir, l = 1, x.down[0]
	}
	if leaderTail {
		// the side that receives the file is the one attacked
		if cfg.upload {
			dir, l = 0, x.upLast()
		} else {
			dir, l = 1, x.down[0]
		}
	}
	pm := []int{60, 200, 500}[tp.Draw("c12.rate", 3)]
	max := 1 + tp.Pick("c12.max", 5, 2, 1)
	fired := 0
	hugeAnnounced := false
	var log []string
	prev := l.Mangle
	ed := vLineEdit(func(typ, payload string, nth int) (string, bool) {
		if leaderTail {
			return "", false // this run attacks the raw blocks only
		}
		if hugeBuf {
			switch {
			case typ == "CFG":
				if raw, err := vDecode(payload); err == nil {
					var m map[string]any
					if json.Unmarshal(raw, &m) == nil && m != nil {
						m["bufsize"] = json.RawMessage([]string{"2147483648", "3000000000", "1099511627776", "2305843009213693952", "4611686018427387903", "4611686018427387904", "1073741825"}[tp.Draw("c12.hugebufv", 7)])
						js, _ := json.Marshal(m)
						fired++
						hugeAnnounced = true
						rc.fault("hostile-CFG-bufsize")
						log = append(log, "CFG bufsize -> "+string(m["bufsize"].(json.RawMessage)))
						return vEncode(js), true
					}
				}
			case typ == "DATA" && len(payload) < 20 && tp.Bool("c12.hugedata", 600):
				np := []string{"2147483648", "4294967296", "3000000000", "1099511627776", "4611686018427387904", "2147483649", "6000000000"}[tp.Draw("c12.hugedatav", 7)]
				fired++
				rc.fault("hostile-DATA")
				log = append(log, fmt.Sprintf("DATA#%d %s -> %s", nth, payload, np))
				return np, true
			}
			return "", false
		}
		if unknownWidth && typ == "CFG" && fired < max && tp.Bool("c12.panewidth", 700) {
			if raw, err := vDecode(payload); err == nil {
				var m map[string]any
				if json.Unmarshal(raw, &m) == nil && m != nil {
					v := []string{"10001", "100000", "3000000", "2147483647", "-1", "4294967296"}[tp.Draw("c12.panewidthv", 6)]
					m["tmux_pane_width"] = json.RawMessage(v)
					delete(m, "quiet")
					if js, err := json.Marshal(m); err == nil {
						fired++
						rc.fault("hostile-CFG-pane-width")
						log = append(log, "CFG tmux_pane_width -> "+v+" (terminal width unknown)")
						return vEncode(js), true
					}
				}
			}
		}
		if dir >= 2 {
			// a relay only reads the handshake lines
			if (typ != "ACT" && typ != "CFG") || fired >= max || !tp.Bool("c12.firehs", 800) {
				return "", false
			}
		} else if fired >= max || !tp.Bool("c12.fire", pm) {
			return "", false
		}
		var np string
		shaped := false
		if tp.Bool("c12.shape", 120) {
			switch typ {
			case "NUM", "SIZE", "SUCC", "DATA", "COMP", "ACT", "CFG", "NAME", "HASH", "MD5", "EXIT", "fail", "FAIL":
				shaped = true
			}
		}
		winDeco := (cfg.cliWindows || cfg.srvWindows) && !shaped && tp.Bool("c12.windeco", 300)
		switch {
		case winDeco:
			// what a console emits when it repaints, in front of an otherwise genuine line
			deco := []string{"\r\n\x1b[25;1H", "\x1b[1;1H", "\n\x1b[2;3H\x1b[K", "\r\n\x1b[25;119H", "\x1b[H\r\n\x1b[3;1H", "\r\n"}[tp.Draw("c12.windecok", 6)]
			np = vWholeLine + deco + "#" + typ + ":" + payload
			shaped = true
		case shaped:
			np = vHostileLineShape(tp, typ, payload)
		default:
			switch typ {
			case "NUM", "SIZE":
				np = vHostileNumFor(tp, payload)
			case "SUCC":
				switch {
				case strings.Contains(payload, "/"):
					parts := strings.SplitN(payload, "/", 2)
					switch tp.Draw("c12.ack", 4) {
					case 0:
						np = parts[0] + "/" + vHostileNumFor(tp, parts[1])
					case 1:
						np = vHostileNumFor(tp, parts[0]) + "/" + parts[1]
					case 2:
						np = parts[0]
					default:
						np = parts[0] + "/" + parts[1] + "/7"
					}
				case len(payload) > 0 && payload[0] >= '0' && payload[0] <= '9' && len(payload) < 20:
					np = vHostileNumFor(tp, payload)
				default:
					np = vHostileEncoded(tp, payload)
				}
			case "DATA":
				if len(payload) < 20 && len(payload) > 0 && payload[0] >= '0' && payload[0] <= '9' {
					np = vHostileNumFor(tp, payload) // binary mode size line
				} else {
					np = vHostileEncoded(tp, payload)
				}
			case "COMP":
				np = []string{"maybe", "", "TRUE", "1"}[tp.Draw("c12.comp", 4)]
			case "ACT", "CFG", "NAME", "HASH", "MD5", "EXIT", "fail", "FAIL":
				np = vHostileEncoded(tp, payload)
				if typ == "NAME" && tp.Bool("c12.namepath", 400) {
					// the path list of a file record is a structure of its own: empty, wrong types, empty elements
					if raw, err := vDecode(payload); err == nil {
						var m map[string]any
						if json.Unmarshal(raw, &m) == nil && m != nil && m["path_name"] != nil {
							shapes := []string{`[]`, `[""]`, `null`, `"name"`, `[1]`, `[[]]`, `["a",""]`, `[null]`, `{}`, `["a",7]`}
							m["path_name"] = json.RawMessage(shapes[tp.Pick("c12.namepathshape", 5, 2, 1, 1, 1, 1, 1, 1, 1, 1)])
							if js, err := json.Marshal(m); err == nil {
								np = vEncode(js)
							}
						}
					}
				} else if (typ == "CFG" || typ == "ACT" || typ == "NAME" || typ == "HASH") && tp.Bool("c12.known", 400) {
					// a well-formed record in which only known fields carry boundary values
					if raw, err := vDecode(payload); err == nil {
						var m map[string]any
						if json.Unmarshal(raw, &m) == nil && m != nil {
							vHostileKnown(tp, m)
							if js, err := json.Marshal(m); err == nil {
								np = vEncode(js)
							}
						}
					}
				}
			default:
				return "", false
			}
		}
		if typ == "CFG" && !shaped {
			// a configuration that announces enormous chunks (as the hugeBuf campaign does on purpose)
			if raw, err := vDecode(np); err == nil {
				var m map[string]any
				if json.Unmarshal(raw, &m) == nil {
					// (a non-positive announcement is taken as the protocol's maximum, 1 GiB, by the receiver's bound)
					if b, ok := m["bufsize"].(float64); ok && (b >= 1<<30 || b <= 0) {
						hugeAnnounced = true
					}
				}
			}
		}
		fired++
		rc.fault("hostile-" + typ)
		if shaped {
			rc.fault("hostile-line-shape")
		}
		log = append(log, fmt.Sprintf("%s#%d %s -> %s", typ, nth, vClip(payload, 24), vClip(strings.TrimPrefix(np, vWholeLine), 40)))
		return np, true
	})
	// binary mode: a raw block whose last byte is the escape leader (half an escape pair at the very end)
	leaderTail = leaderTail && dir < 2
	blockLeft := -1
	l.Mangle = func(ll *verifsim.Link, d []byte) []byte {
		if prev != nil {
			d = prev(ll, d)
		}
		if leaderTail && fired < max {
			if blockLeft > 0 {
				if len(d) >= blockLeft {
					if tp.Bool("c12.leadertailfire", 400) {
						d = append([]byte(nil), d...)
						d[blockLeft-1] = 0xee
						fired++
						rc.fault("hostile-DATA-block-ends-in-leader")
						log = append(log, "DATA block: last byte -> 0xee")
					}
					blockLeft = -1
				} else {
					blockLeft -= len(d)
				}
				return d
			}
			// a size line anywhere in this write (a sender may put several lines into one write)
			if m := vDataSizeLine.FindSubmatchIndex(d); m != nil {
				n := 0
				fmt.Sscanf(string(d[m[2]:m[3]]), "%d", &n)
				start := m[1] // first byte of the block
				rest := len(d) - start
				if n > 0 {
					rc.fault("leadertail-header-seen")
					switch {
					case rest >= n:
						if tp.Bool("c12.leadertailfire", 400) {
							d = append([]byte(nil), d...)
							d[start+n-1] = 0xee
							fired++
							rc.fault("hostile-DATA-block-ends-in-leader")
							log = append(log, "DATA block: last byte -> 0xee")
						}
					default:
						blockLeft = n - rest // the block follows in writes of its own
					}
					return d
				}
			}
		}
		return ed(ll, d)
	}
	rc.res.ClassKey = fmt.Sprintf("%s dir%d", cfg.key(), dir)
	rc.res.Scenario["attacked"] = []string{"server", "client", "relay (from the server side)", "relay (from the client side)"}[dir]
	var m0 runtime.MemStats
	runtime.ReadMemStats(&m0)
	x.start()
	w.Run(x.finished)
	var m1 runtime.MemStats
	runtime.ReadMemStats(&m1)
	rep := x.report()
	rc.res.Scenario["edits"] = log
	rc.res.Scenario["client_fail"] = vClip(rep.clientFail, 160)
	rc.res.Scenario["server_fail"] = vClip(rep.serverFail, 160)
	if fired == 0 {
		return
	}
	if w.StepCap {
		return
	}
	// allocation attributable to one length field
	alloc := int64(m1.TotalAlloc - m0.TotalAlloc)
	var moved, writes int64
	for _, ll := range append(append([]*verifsim.Link{}, x.up...), x.down...) {
		moved += ll.NSentTotal()
		_, _, evs := ll.Snapshot()
		writes += int64(len(evs))
	}
	// every read at every hop takes a fresh 32 KiB buffer: churn proportional to the number of messages is not
	// "memory on the strength of a length field"
	budget := int64(64<<20) + 16*(moved+10<<20) + 3*int64(kPrefixHashStep) + writes*(128<<10)
	// every file of a transfer has its own compressors (zstd for the data, a deflate writer for each control line,
	// about a megabyte apiece) and, in directory mode, its own archive writer: churn proportional to the number
	// of files is not memory on the strength of a length field either
	if nf, ok := rc.res.Scenario["files"].(int); ok {
		budget += int64(nf) * (16 << 20)
	}
	if hugeAnnounced {
		// the protocol lets a server announce chunks of up to 1 GiB (2 GiB escaped): a receiver that reserves
		// that much for one announced chunk stays within what was negotiated; beyond it, it does not
		budget += 2 << 30
	}
	// (total allocation is churn, not residency: a quarter on top, the oracle is after gigabytes on the strength of a
	// number, not after a megabyte more or less per message)
	budget += budget / 4
	rc.res.Scenario["alloc_mb"] = alloc >> 20
	if alloc > budget {
		rc.violate("alloc", "C12:alloc:"+vEditSig(log), "the run allocated %d MiB although only %d KiB crossed the links (budget %d MiB); hostile edits: %v", alloc>>20, moved>>10, budget>>20, log)
		return
	}
	clientBusy := x.filter.IsTransferringFiles()
	if !rep.serverExited || clientBusy {
		rc.violate("hang", "C12:hang"+x.hangClass()+":"+vEditSig(log), "after hostile input a role never returned (server exited=%v, client transferring=%v, sim=%v); edits %v; client fail=%q server fail=%q",
			rep.serverExited, clientBusy, w.Now(), log, vClip(rep.clientFail, 100), vClip(rep.serverFail, 100))
		return
	}
	// progress display sanity (when attached): percentages within 0..100
	if bad := vProgressInsane(x); bad != "" {
		rc.violate("progress", "C12:progress:"+vEditSig(log), "the progress display reached an impossible state after hostile input %v: %s", log, bad)
		return
	}
	// the session is usable afterwards: transparency probe in both directions
	if msg := x.probeTransparent("after hostile input"); msg != "" {
		rc.violate("unusable", "C12:unusable:"+vEditSig(log), "%s (edits %v)", msg, log)
		return
	}
	rc.res.Nontrivial = true
}

func vEditSig(log []string) string {
	if len(log) == 0 {
		return ""
	}
	s := log[0]
	if i := strings.IndexByte(s, '#'); i > 0 {
		return s[:i]
	}
	return vClip(s, 12)
}

// vProgressInsane scans what the client wrote to the terminal for percentages outside 0..100.
func vProgressInsane(x *xferWorld) string {
	term, _, _ := x.term.Snapshot()
	text := string(vStripVT(term))
	for i := 0; i < len(text); i++ {
		if text[i] != '%' {
			continue
		}
		j := i
		for j > 0 && (text[j-1] >= '0' && text[j-1] <= '9' || text[j-1] == '-') {
			j--
		}
		if j == i {
			continue
		}
		var v int
		if _, err := fmt.Sscan(text[j:i], &v); err == nil && (v < 0 || v > 100) {
			return fmt.Sprintf("percentage %d%% shown", v)
		}
	}
	return ""
}

// probeTransparent checks that, with no transfer active, shell output reaches the terminal and
// typed input reaches the server side, unmodified. Returns "" when fine.
func (x *xferWorld) probeTransparent(when string) string {
	w := x.w
	if x.filter.IsTransferringFiles() {
		return when + ": the filter still believes a transfer is active"
	}
	out := []byte(fmt.Sprintf("probe-out-%d$ \x1b[0mls\r\n", w.Steps))
	in := []byte(fmt.Sprintf("echo probe-in-%d\r", w.Steps))
	termBefore := x.term.NSentInt()
	upBefore := x.up[0].NSentInt()
	w.Go("probe", nil, func() {
		x.down[0].Inject(out)
		for _, c := range in {
			x.kbd.Write([]byte{c})
		}
	})
	x.settle(2 * time.Second)
	term, _, _ := x.term.Snapshot()
	up, _, _ := x.up[0].Snapshot()
	if !bytes.Contains(term[termBefore:], out) {
		return fmt.Sprintf("%s: shell output %q did not reach the terminal unmodified (terminal got %s)", when, out, vQuote(term[termBefore:], 120))
	}
	if !bytes.Contains(up[upBefore:], in) {
		return fmt.Sprintf("%s: typed input %q did not reach the server side (got %s)", when, in, vQuote(up[upBefore:], 120))
	}
	return ""
}
