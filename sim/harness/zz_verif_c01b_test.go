package trzsz

import (
	"bytes"
	"fmt"
	"os"
	"path/filepath"
	"strconv"
	"strings"
	"time"
)

// vC01BufEdge: file sizes placed against the chunk boundaries the sender actually uses. A first transfer of a
// long incompressible file shows where the data chunks end on the wire (the initial chunk, the doubling, the
// announced maximum, which need not be a multiple of anything); a second transfer through the same client then
// sends a prefix of that file whose encoded length ends a few bytes after (or before) one of those boundaries,
// so that the last chunk is 1..4 bytes long, or the file ends exactly on a boundary.
func vC01BufEdge(rc *runCtx) {
	tp := rc.tape
	w := rc.w
	cfg := vDrawConfig(tp, false)
	cfg.compress = "no"
	cfg.dirMode = false
	cfg.overwrite = false
	cfg.trigVersion = ""
	cfg.timeout = 20
	cfg.binary = tp.Bool("edge.bin", 250)
	cfg.escapeAll = cfg.binary && tp.Bool("edge.esc", 300)
	cfg.bufSize = []string{"1025", "1K", "4099", "4k", "10241", "20481", "20482", "16K", "30000"}[tp.Draw("edge.bufsz", 9)]
	if cfg.protocol == 1 {
		cfg.protocol = 2
	}
	bnum, _ := strconv.Atoi(strings.TrimSuffix(strings.TrimSuffix(cfg.bufSize, "K"), "k"))
	if strings.HasSuffix(strings.ToUpper(cfg.bufSize), "K") {
		bnum *= 1024
	}
	src := filepath.Join(rc.dir, "src")
	dst := filepath.Join(rc.dir, "dst")
	dst2 := filepath.Join(rc.dir, "dst2")
	for _, d := range []string{src, dst, dst2} {
		os.MkdirAll(d, 0755)
	}
	long := tp.Bytes("edge.content", 7*bnum+3*10240+tp.Draw("edge.extra", 5000))
	p1 := filepath.Join(src, "long.bin")
	vWriteFile(p1, long)
	o := cfg.opts()
	o.srcPaths, o.dstDir = []string{p1}, dst
	o.profile = transportProfile{segPm: []int{0, 200}[tp.Draw("edge.seg", 2)], coalPm: 100, latPm: 200, latMax: 20 * time.Millisecond}
	o.simCap = 20 * time.Minute
	rc.res.ClassKey = "bufedge " + cfg.key()
	rc.res.Scenario["config"] = cfg.key()
	rc.res.Scenario["flags"] = strings.Join(o.flags, " ")
	before := vSnapshot(dst)
	x := newXferWorld(rc, o)
	x.start()
	w.Run(x.finished)
	rep := x.report()
	vCheckFidelity(rc, x, rep, before, true)
	if rc.res.Class != "ok" {
		rc.res.Msg = "probe transfer (long file): " + rc.res.Msg
		return
	}
	// chunk boundaries as the sender drew them: cumulative payload lengths of its data messages
	msgs := rep.serverMsgs
	if cfg.upload {
		msgs = rep.clientMsgs
	}
	var ends []int
	total := 0
	for _, m := range msgs {
		if m.Typ != "DATA" {
			continue
		}
		n := len(m.Payload)
		if m.BinLen >= 0 {
			n = m.BinLen
		}
		if n == 0 {
			continue
		}
		total += n
		ends = append(ends, total)
	}
	rc.res.Scenario["chunk_ends"] = fmt.Sprint(ends)
	if len(ends) < 3 {
		rc.inconclusive("the probe transfer showed fewer than three data chunks")
		return
	}
	// choose a boundary (not the last: that is the end of the long file) and a distance
	k := tp.Draw("edge.k", len(ends)-1)
	e := ends[k]
	delta := []int{1, 2, 3, 4, 0, -1, 5}[tp.Pick("edge.delta", 4, 2, 2, 2, 2, 1, 1)]
	var n int
	if cfg.binary {
		// escaping makes the encoded length depend on the content: take the raw prefix that encodes to the boundary
		n = vRawPrefixFor(long, e+delta, cfg.escapeAll)
	} else {
		// base64: encoded length 4*ceil(n/3); the nearest one not below the wanted end
		want := e + delta
		for want%4 != 0 {
			want++
		}
		n = want/4*3 - tp.Draw("edge.pad", 3)
	}
	if n < 1 || n > len(long) {
		rc.inconclusive("no prefix of the long file reaches the chosen boundary")
		return
	}
	rc.res.Scenario["second_size"] = n
	rc.res.Scenario["boundary"] = fmt.Sprintf("chunk %d ends at %d, wanted end %+d", k, e, delta)
	p2 := filepath.Join(src, "edge.bin")
	vWriteFile(p2, long[:n])
	x.settle(11 * time.Second) // the OneTimeUpload watchdog of the first transfer has expired
	o2 := cfg.opts()
	o2.srcPaths, o2.dstDir = []string{p2}, dst2
	before2 := vSnapshot(dst2)
	x.nextTransfer(o2)
	w.Run(x.finished)
	rep2 := x.report()
	vCheckFidelity(rc, x, rep2, before2, true)
	if rc.res.Class == "violation" {
		rc.res.Msg = fmt.Sprintf("file of %d bytes (encoded end %+d from the end of chunk %d at %d; chunk ends %v): %s", n, delta, k, e, ends, rc.res.Msg)
	}
}

// vRawPrefixFor returns the length of the shortest raw prefix whose escaped form is at least want bytes long
// (independent re-statement of the escaping rule: protected bytes take two bytes on the wire).
func vRawPrefixFor(raw []byte, want int, escapeAll bool) int {
	protected := map[byte]bool{0xee: true, 0x7e: true}
	if escapeAll {
		for _, b := range []byte{0x02, 0x0d, 0x10, 0x11, 0x13, 0x18, 0x1b, 0x1d, 0x8d, 0x90, 0x91, 0x93, 0x9d} {
			protected[b] = true
		}
	}
	enc := 0
	for i, b := range raw {
		if enc >= want {
			return i
		}
		if protected[b] {
			enc += 2
		} else {
			enc++
		}
	}
	return len(raw)
}

// vC01DupNames: an upload with -y whose selection holds the same name twice (from two directories): both cannot
// be at the destination afterwards, so the transfer is refused and nothing is written - or, should it ever be
// accepted, both contents must exist at the destination. Reporting success with one of them gone is the failure.
func vC01DupNames(rc *runCtx) {
	tp := rc.tape
	cfg := vDrawConfig(tp, false)
	cfg.upload, cfg.overwrite, cfg.timeout, cfg.trigVersion = true, true, 20, ""
	src := filepath.Join(rc.dir, "src")
	dst := filepath.Join(rc.dir, "dst")
	os.MkdirAll(dst, 0755)
	name := vNamePool[tp.Draw("dup.name", len(vNamePool))]
	var paths []string
	var contents [][]byte
	// ... or two directories of the same name (from two parents) that both hold a file at the same relative path
	asDirs := tp.Bool("dup.dirs", 400)
	if asDirs {
		cfg.dirMode = true
	}
	for i := 0; i < 2; i++ {
		d := filepath.Join(src, fmt.Sprintf("20%02d", 23+i))
		os.MkdirAll(d, 0755)
		b, _ := vGenContent(tp, 1+tp.Draw("dup.size", 20000))
		b = append(b, byte('A'+i))
		if asDirs {
			top := filepath.Join(d, "conf")
			rel := []string{"app.ini", filepath.Join("sub", name)}[tp.Draw("dup.rel", 2)]
			os.MkdirAll(filepath.Dir(filepath.Join(top, rel)), 0755)
			vWriteFile(filepath.Join(top, rel), b)
			vWriteFile(filepath.Join(top, fmt.Sprintf("only-in-%d.txt", i)), []byte(fmt.Sprintf("unique %d", i)))
			paths = append(paths, top)
		} else {
			vWriteFile(filepath.Join(d, name), b)
			paths = append(paths, filepath.Join(d, name))
		}
		contents = append(contents, b)
	}
	if tp.Bool("dup.other", 500) {
		p := filepath.Join(src, "other.bin")
		b, _ := vGenContent(tp, 1+tp.Draw("dup.othersize", 5000))
		vWriteFile(p, b)
		paths = append([]string{p}, paths...)
	}
	if tp.Bool("dup.prior", 300) {
		vWriteFile(filepath.Join(dst, name), []byte("an older version at the destination"))
	}
	o := cfg.opts()
	o.srcPaths, o.dstDir = paths, dst
	o.profile = vDrawProfile(tp, cfg.timeout)
	rc.res.ClassKey = fmt.Sprintf("dupnames dirs=%v %s", asDirs, cfg.key())
	rc.res.Scenario["config"] = cfg.key()
	rc.res.Scenario["flags"] = strings.Join(o.flags, " ")
	before := vSnapshot(dst)
	x := newXferWorld(rc, o)
	x.start()
	rc.w.Run(x.finished)
	rep := x.report()
	rc.res.Scenario["client_fail"] = vClip(rep.clientFail, 120)
	if rc.w.StepCap {
		return
	}
	if !rep.serverExited || x.filter.IsTransferringFiles() {
		rc.violate("hang", "C01:dupnames-hang", "an upload with -y of a selection holding %q twice never ended", name)
		return
	}
	after := vSnapshot(dst)
	if rep.clientOK || rep.serverOK {
		for i, c := range contents {
			found := false
			for _, k := range after.keys() {
				if b, err := os.ReadFile(filepath.Join(dst, k)); err == nil && bytes.Equal(b, c) {
					found = true
				}
			}
			if !found {
				rc.violate("content", "C01:dupnames-lost", "an upload with -y of a selection holding %q twice was reported as saved (client ok=%v server ok=%v), but the content of %s is nowhere at the destination", name, rep.clientOK, rep.serverOK, paths[len(paths)-2+i])
				return
			}
		}
	} else {
		for _, k := range before.keys() {
			if a, ok := after[k]; !ok || !before[k].untouched(a) {
				rc.violate("content", "C01:dupnames-touched", "the refused upload (duplicate name %q) changed %q at the destination", name, k)
				return
			}
		}
	}
	rc.res.Nontrivial = true
}
