package trzsz

import (
	"bytes"
	"fmt"
	"net"
	"os"
	"path/filepath"
	"strings"
	"time"

	"github.com/trzsz/trzsz-go/internal/verifsim"
)

func init() {
	vScenarios["C05"] = vScenarioC05
	vScenarios["C06"] = vScenarioC06
}

// ---------------------------------------------------------------------------------------------
// content generators for "everything short of a genuine trigger"

var vVT100 = []string{"\x1b[0m", "\x1b[1;32m", "\x1b[2J", "\x1b[H", "\x1b[25;119H", "\x1b7", "\x1b8", "\x1b[?25l", "\x1b[?25h", "\x1b[0J", "\x1b]0;title\a", "\x1bP=1s\x1b\\", "\r\n", "\x08", "\x1b[K"}

var vNearTriggers = []string{"::TRZSZ:TRANSFER:", "::TRZSZ:TRANSFER:S", "::TRZSZ:TRANSFER:S:", "::TRZSZ:TRANSFER:S:1.1", "::TRZSZ:TRANSFER:X:1.1.8:4668480000000:0", "::TRZSZ:TRANSFER:s:1.1.8:4668480000000:0",
	"::TRZSZ:TRANSFE:S:1.1.8:4668480000000:0", ":TRZSZ:TRANSFER:S:1.1.8:4668480000000:0", "::TRZSZ:TRANSFER:S:1.1:4668480000000", "::TRZSZ:TRANSFER:S:a.b.c:1", "::TRZSZ::TRANSFER:S:1.1.8:1",
	"::TRZSZGO:TRANSFER:S:1.1.8:4668480000000:0", "::trzsz:transfer:S:1.1.8:1", "TRZSZ:TRANSFER:R:1.1.8", "::TRZSZ:TRANSFER:R:1.1.", "::TRZSZ:TRANSFER:D:.1.8:1"}

var vZmodemLike = []string{"**\x18B0", "**\x18B00000000000", "**\x18B0100000000000", "**\x18B0Z00000000000000", "*\x18B00000000000000", "**\x18B00000000000000\x18\x18\x18\x18\x18", "rz: cannot open /x **\x18B00000000000000",
	"**\x18B0800000000000000", "**\x18b00000000000000", "\x18\x18\x18\x18\x18\x18\x18\x18\x18\x18"}

var vOSC52Like = []string{"\x1b]52;c;aGVsbG8=\a", "\x1b]52;c;", "\x1b]52;x;aGVsbG8=\a", "\x1b]52;c;!!!notbase64\a", "\x1b]52;p;d29ybGQ=\x1b\\", "\x1b]52", "\x1b]52;c;aGVsbG8"}

func vShellChunk(tp *verifsim.Tape, traceLog bool) ([]byte, string) {
	switch tp.Pick("out.kind", 4, 3, 3, 2, 2, 2, 1) {
	case 0:
		n := 1 + tp.Draw("out.n", 200)
		b := tp.Bytes("out.bin", n)
		// never let random bytes spell a genuine trigger or zmodem header
		b = bytes.ReplaceAll(b, []byte("::"), []byte(":;"))
		b = bytes.ReplaceAll(b, []byte("**"), []byte("*+"))
		return b, "binary"
	case 1:
		var b []byte
		for i := 0; i < 1+tp.Draw("out.vtn", 6); i++ {
			b = append(b, vVT100[tp.Draw("out.vt", len(vVT100))]...)
			b = append(b, []byte("ls -l output text ")[:tp.Draw("out.txt", 18)]...)
		}
		return b, "vt100"
	case 2:
		t := vNearTriggers[tp.Draw("out.near", len(vNearTriggers))]
		pre := []byte("$ trz\r\n")[:tp.Draw("out.pre", 8)]
		return append(append(pre, t...), "\r\n"...), "near-trigger"
	case 3:
		return []byte(vZmodemLike[tp.Draw("out.zm", len(vZmodemLike))]), "zmodem-like"
	case 4:
		return []byte(vOSC52Like[tp.Draw("out.osc", len(vOSC52Like))]), "osc52-like"
	case 5:
		// scroll-back of a finished transfer: a genuine-looking trigger followed by its result
		tail := []string{"Saved 1 file/directory to /tmp\r\n- a.txt\r\n", "Cancelled\r\n", "Stopped\r\n", "Interrupted\r\n", "#CFG:eJwEwEsKAjEM\n"}[tp.Draw("out.tail", 5)]
		return []byte("\x1b7\x07::TRZSZ:TRANSFER:S:1.1.8:4668480000000:0\r\n\x1b8\x1b[0J" + tail), "scroll-back"
	default:
		if traceLog {
			return []byte("<ENABLE_TRZSZ_TRACE_LOG <DISABLE_TRZSZ_TRACE_LOG"), "near-tracelog"
		}
		return []byte("echo <ENABLE_TRZSZ_TRACE_LOG>"), "tracelog-token-without-option"
	}
}

func vUserChunk(tp *verifsim.Tape, existing string) ([]byte, string) {
	switch tp.Pick("in.kind", 4, 2, 2, 2, 1) {
	case 0:
		b := tp.Bytes("in.bin", 1+tp.Draw("in.n", 40))
		return b, "binary"
	case 1:
		return []byte{[]byte{0x03, 0x04, 0x1a, '\r', '\t', 0x1b}[tp.Draw("in.ctl", 6)]}, "control"
	case 2:
		// path-like input naming files that do not exist
		return []byte([]string{"/no/such/file ", "'/no/such/file with space' ", "/etc/nonexistent-zz /tmp/nonexistent-yy ", "/tmp/x", "'/tmp/unterminated "}[tp.Draw("in.path", 5)]), "path-like"
	case 3:
		// an existing path, but not in the dragged-path shape (no trailing space / extra text)
		q := vShellQuote(existing)
		return []byte([]string{existing, "cat " + existing + " ", existing + " | wc ", " " + existing + " ",
			// a list in the dragged shape in which not every path exists (cp-style paste): not a drag
			q + " /no/such/newname ", "/no/such/file " + q + " ", q + " " + q + ".does-not-exist ", "'/no/such dir/x' " + q + " "}[tp.Draw("in.exist", 8)]), "existing-path-not-drag"
	default:
		return []byte("\x1b[200~pasted text\x1b[201~"), "bracketed-paste"
	}
}

// ---------------------------------------------------------------------------------------------
// C05

func vScenarioC05(rc *runCtx) {
	tp := rc.tape
	w := rc.w
	fo := TrzszOptions{DetectDragFile: tp.Bool("opt.drag", 500), DetectTraceLog: tp.Bool("opt.trace", 300), EnableZmodem: tp.Bool("opt.zmodem", 500), EnableOSC52: tp.Bool("opt.osc52", 500)}
	history := tp.Pick("c05.history", 4, 3, 2, 1) // number of preceding transfers
	// further history: a drag upload that never became a transfer (no trz on the server), or a zmodem
	// session that ended in an error
	extra := tp.Pick("c05.extra", 5, 2, 2, 2, 2)
	if extra == 1 {
		fo.DetectDragFile = true
	}
	if extra == 2 || extra == 3 {
		fo.EnableZmodem = true
	}
	cfg := vDrawConfig(tp, false)
	cfg.timeout = 5
	cfg.trigVersion = ""
	cfg.bufSize = ""
	src := filepath.Join(rc.dir, "src")
	dst := filepath.Join(rc.dir, "dst")
	os.MkdirAll(dst, 0755)
	spec := vGenSources(rc, src, 2, cfg.dirMode, 30000, !cfg.overwrite)
	o := cfg.opts()
	o.srcPaths = spec.paths
	o.dstDir = dst
	o.filterOpts = fo
	o.profile = transportProfile{segPm: []int{0, 300, 1000}[tp.Draw("c05.seg", 3)], coalPm: []int{0, 300}[tp.Draw("c05.coal", 2)]}
	o.simCap = 20 * time.Minute
	var clip [][]byte
	writeToClipboard = func(b []byte) { clip = append(clip, append([]byte(nil), b...)) }
	x := newXferWorld(rc, o)
	x.noServer = history == 0
	var endings []string
	x.start()
	if history == 0 {
		w.Run(func() bool { return x.clientReady && x.filter != nil })
	} else {
		w.Run(x.finished)
		endings = append(endings, "success")
		for h := 1; h < history; h++ {
			x.settle(11 * time.Second) // the OneTimeUpload watchdog of the previous transfer has expired
			o2 := cfg.opts()
			o2.srcPaths, o2.dstDir, o2.filterOpts = spec.paths, dst, fo
			x.nextTransfer(o2)
			switch tp.Pick("c05.ending", 2, 2, 2) {
			case 1:
				endings = append(endings, "user-stop")
				armed := vArmAfterCfg(x)
				vOnChunk(rc, x, armed, 200, func() {
					x.paused = true
					w.Go("user", x.client, func() {
						x.kbd.Write([]byte{0x03})
						verifsim.Sleep(150 * time.Millisecond)
						x.typeKeys("\r", 20*time.Millisecond)
					})
				})
			case 2:
				endings = append(endings, "sigint")
				armed := vArmAfterCfg(x)
				vOnChunk(rc, x, armed, 200, func() {
					w.Go("signal", nil, func() { x.server.Signal(os.Interrupt) })
				})
			default:
				endings = append(endings, "success")
			}
			w.Run(x.finished)
		}
	}
	rc.res.Scenario["options"] = fmt.Sprintf("drag=%v trace=%v zmodem=%v osc52=%v", fo.DetectDragFile, fo.DetectTraceLog, fo.EnableZmodem, fo.EnableOSC52)
	rc.res.Scenario["history"] = endings
	if history > 0 && (x.filter.IsTransferringFiles() || !x.server.Exited) {
		rc.inconclusive("a preceding transfer did not end (decided by C01/C10/C11)")
		return
	}
	switch extra {
	case 1:
		endings = append(endings, "drag-without-trz")
		// what the shell prints first after the command was typed for the user: plain, or with the colours and
		// mode switches of a fancy prompt; either way it is shown as printed
		firstEcho := []byte([]string{"^C\r\n$ t", "\x1b[0m^C\r\n\x1b[01;32muser@host\x1b[00m:\x1b[01;34m~\x1b[00m$ t", "\x1b[?2004l\r^C\r\n\x1b[?2004h$ t"}[tp.Draw("c05.firstecho", 3)])
		dragFrom := x.term.NSentInt()
		defer func() {
			if t, _, _ := x.term.Snapshot(); rc.res.Class != "violation" && dragFrom <= len(t) && !bytes.Contains(t[dragFrom:], firstEcho) {
				rc.violate("output", "C05:output-altered:after-typed-command", "after the wrapper had typed the upload command for the user, the shell printed %s; the terminal got %s", vQuote(firstEcho, 80), vQuote(t[dragFrom:], 160))
			}
		}()
		w.Go("drag", nil, func() {
			verifsim.Sleep(1200 * time.Millisecond)
			x.kbd.Write([]byte(vShellQuote(spec.paths[0]) + " ")) // dropped on the terminal: one read
			// the shell echoes what the filter types, in pieces, and has no trz
			for k := 0; k < 300; k++ {
				if u, _, _ := x.up[0].Snapshot(); bytes.Contains(u, []byte("trz")) && bytes.HasSuffix(u, []byte("\r")) {
					break
				}
				verifsim.Sleep(10 * time.Millisecond)
			}
			x.down[0].Write(firstEcho)
			verifsim.Sleep(5 * time.Millisecond)
			x.down[0].Write([]byte("rz"))
			verifsim.Sleep(5 * time.Millisecond)
			x.down[0].Write([]byte("\r\nbash: trz: command not found\r\n$ "))
		})
		x.settle(6 * time.Second)
	case 2:
		endings = append(endings, "zmodem-error")
		hdr2 := "rz waiting to receive.\r**\x18B0100000023be50\r\x8a\x11"
		if tp.Bool("c05.zmhelperfails", 500) {
			// a download whose local rz starts and exits with an error at once, the remote side silent
			endings[len(endings)-1] = "zmodem-helper-exits-nonzero"
			hdr2 = "**\x18B00000000000000\r\x8a\x11"
			x.execs[x.client] = func(req *verifsim.ExecRequest) (verifsim.ExecChild, error) {
				if req.Name != "rz" {
					return nil, fmt.Errorf("exec: %q: executable file not found in $PATH", req.Name)
				}
				h := &vHelper{w: w, kind: "exit-nonzero", name: req.Name, done: make(chan int, 1), killed: make(chan struct{})}
				w.Go("helper.rz.fails", nil, func() {
					verifsim.Sleep(10 * time.Millisecond)
					h.exit(3)
				})
				return h, nil
			}
			defer delete(x.execs, x.client)
		}
		w.Go("zm", nil, func() {
			x.down[0].Write([]byte(hdr2))
		})
		x.settle(4 * time.Second)
	}
	if extra == 3 {
		// a zmodem start header, and within the 100 ms the client waits for exactly this the remote rz gives up
		// with a complaint (no cancel bytes) and the shell prompt: that text is ordinary output again
		endings = append(endings, "zmodem-server-gives-up")
		complaint := []byte("rz: cannot open /dev/tty: Permission denied\r\n$ ")
		shownFrom := 0
		// the complaint travels within one read, like the header (the client looks at each read on its own)
		prevAtomic := x.down[0].Atomic
		x.down[0].Atomic = func(d []byte) bool {
			return bytes.Contains(d, []byte("cannot open")) || (prevAtomic != nil && prevAtomic(d))
		}
		// the header may announce a download, and a local rz may exist: the remote side has given up before the
		// client's wait is over, so that helper is never started (what it would write is not the user's typing)
		hdr3 := "rz waiting to receive.\r**\x18B0100000023be50\r\x8a\x11"
		helperStarted := 0
		if tp.Bool("c05.giveupdl", 500) {
			hdr3 = "**\x18B00000000000000\r\x8a\x11"
			x.execs[x.client] = func(req *verifsim.ExecRequest) (verifsim.ExecChild, error) {
				if req.Name != "rz" {
					return nil, fmt.Errorf("exec: %q: executable file not found in $PATH", req.Name)
				}
				helperStarted++
				h := &vHelper{w: w, kind: "normal", name: req.Name, done: make(chan int, 1), killed: make(chan struct{})}
				w.Go("helper.rz", nil, func() {
					if req.Stdout != nil {
						req.Stdout.Write([]byte("**\x18B0100000023be50\r\x8a\x11"))
					}
				})
				return h, nil
			}
			defer delete(x.execs, x.client)
		}
		defer func() {
			if helperStarted > 0 && rc.res.Class != "violation" {
				rc.violate("started", "C05:helper-started-after-giveup", "the remote side gave up within the 100 ms the client waits after a zmodem header, yet the local rz was started %d time(s)", helperStarted)
			}
		}()
		w.Go("zm", nil, func() {
			x.down[0].Write([]byte(hdr3))
			verifsim.Sleep(time.Duration(20+tp.Draw("c05.giveup", 70)) * time.Millisecond)
			shownFrom = x.term.NSentInt()
			x.down[0].Write(complaint)
		})
		x.settle(4 * time.Second)
		t, _, _ := x.term.Snapshot()
		if !bytes.Contains(t[shownFrom:], complaint) {
			rc.violate("output", "C05:output-swallowed:zmodem-giveup", "the remote rz gave up right after its start header with %q (no cancel bytes): that text never reached the terminal (terminal got %s); options drag=%v trace=%v zmodem=%v osc52=%v",
				complaint, vQuote(t[shownFrom:], 100), fo.DetectDragFile, fo.DetectTraceLog, fo.EnableZmodem, fo.EnableOSC52)
			return
		}
	}
	var cancelledTranscript []byte
	if extra == 4 {
		// a download the user cancels in the file dialog (a stand-in dialog program that exits the way a cancelled
		// dialog does): the real server prints its refusal; later its whole record scrolls by again in one read
		if dir := os.Getenv("PATH"); dir != "" && !strings.Contains(dir, ":") {
			z := filepath.Join(dir, "zenity")
			if os.WriteFile(z, []byte("#!/bin/sh\nexit 1\n"), 0755) == nil {
				defer os.Remove(z)
				endings = append(endings, "cancelled-in-dialog")
				cfg2 := *cfg
				cfg2.upload = false
				cfg2.srvTmux = ""
				o2 := cfg2.opts()
				o2.srcPaths, o2.dstDir, o2.filterOpts, o2.noDefaultPath = spec.paths, dst, fo, true
				x.settle(11 * time.Second)
				from := x.down[0].NSentInt()
				x.nextTransfer(o2)
				w.Run(x.finished)
				d, _, _ := x.down[0].Snapshot()
				rec := d[from:]
				if i := bytes.Index(rec, []byte("::TRZSZ:TRANSFER:")); i >= 0 && !x.filter.IsTransferringFiles() && x.server.Exited {
					cancelledTranscript = append([]byte{}, rec[i:]...)
				}
				x.filter.SetDefaultDownloadPath(dst)
			}
		}
	}
	// drain window after the last transfer, then the probe phase
	x.settle(1500 * time.Millisecond)
	termBefore := x.term.NSentInt()
	upBefore := x.up[0].NSentInt()
	var wantOut, wantIn []byte
	var kinds []string
	n := 3 + tp.Draw("c05.probes", 12)
	existing := spec.paths[0]
	done := false
	w.Go("probe", nil, func() {
		for i := 0; i < n; i++ {
			if extra == 2 && i == 0 {
				// the first thing after the zmodem session is a lone Ctrl-C, before any remote output
				kinds = append(kinds, "in:ctrl-c-first")
				wantIn = append(wantIn, 0x03)
				x.kbd.Write([]byte{0x03})
				verifsim.Sleep(50 * time.Millisecond)
				continue
			}
			if cancelledTranscript != nil && i == 1 {
				// the record of the cancelled transfer, as the server wrote it, again in one read (cat of a log)
				kinds = append(kinds, "out:record-of-cancelled-transfer")
				wantOut = append(wantOut, cancelledTranscript...)
				prevAtomic := x.down[0].Atomic
				x.down[0].Atomic = func(d []byte) bool { return true }
				x.down[0].Write(cancelledTranscript)
				x.down[0].Atomic = prevAtomic
				verifsim.Sleep(100 * time.Millisecond)
				continue
			}
			if extra == 1 && tp.Bool("c05.echoagain", 300) {
				// output that happens to equal the command the filter typed earlier
				b := []byte([]string{"trz\r\n", "trz", "trz -d\r\n"}[tp.Draw("c05.echo", 3)])
				kinds = append(kinds, "out:equals-upload-command")
				wantOut = append(wantOut, b...)
				x.down[0].Write(b)
				verifsim.Sleep(20 * time.Millisecond)
				continue
			}
			if fo.DetectDragFile && strings.HasPrefix(existing, "/") && !strings.Contains(existing, "'") && tp.Bool("c05.dragthentype", 80) {
				// files dropped on the terminal, and the user types on within the 300 ms the filter waits before it
				// acts on a drop: the drop is given up (its path text is the statement's exception and is not
				// forwarded), nothing is typed into the remote shell on the user's behalf, what the user types arrives
				kinds = append(kinds, "in:drop-then-typing")
				prevAtomic := x.kbd.Atomic
				x.kbd.Atomic = func(d []byte) bool { return true } // a drop arrives in one read
				x.kbd.Write([]byte(vShellQuote(existing) + " "))
				x.kbd.Atomic = prevAtomic
				verifsim.Sleep(time.Duration(tp.Draw("c05.dropgap", 280)) * time.Millisecond)
				b := []byte([]string{"echo hello\r", "x", "ls -l\r", "q"}[tp.Draw("c05.droptyped", 4)])
				wantIn = append(wantIn, b...)
				x.kbd.Write(b)
				verifsim.Sleep(900 * time.Millisecond)
				continue
			}
			if tp.Bool("c05.dir", 500) {
				b, k := vShellChunk(tp, fo.DetectTraceLog)
				kinds = append(kinds, "out:"+k)
				wantOut = append(wantOut, b...)
				x.down[0].Write(b)
			} else {
				b, k := vUserChunk(tp, existing)
				kinds = append(kinds, "in:"+k)
				wantIn = append(wantIn, b...)
				x.kbd.Write(b)
			}
			if tp.Bool("c05.pause", 300) {
				verifsim.Sleep(time.Duration(1+tp.Draw("c05.ms", 400)) * time.Millisecond)
			}
		}
		done = true
	})
	w.Run(func() bool { return done })
	x.settle(1500 * time.Millisecond)
	rc.res.Scenario["probes"] = kinds
	rc.res.ClassKey = fmt.Sprintf("%s hist%d %v", rc.res.Scenario["options"], history, vKindSet(kinds))
	term, _, _ := x.term.Snapshot()
	up, _, _ := x.up[0].Snapshot()
	gotOut, gotIn := term[termBefore:], up[upBefore:]
	if extra == 2 {
		// the zmodem session hid the cursor; the filter shows it again together with the first output
		// after the session. That one local sequence is the end of the session, not a change to the
		// remote bytes: it is removed before comparing (once, and only in this history).
		seq := []byte("\x1b[?25h")
		for from := 0; !bytes.Equal(gotOut, wantOut); {
			i := bytes.Index(gotOut[from:], seq)
			if i < 0 {
				break
			}
			i += from
			cand := append(append([]byte{}, gotOut[:i]...), gotOut[i+len(seq):]...)
			if bytes.Equal(cand, wantOut) {
				gotOut = cand
				break
			}
			from = i + 1
		}
	}
	if x.filter.IsTransferringFiles() {
		rc.violate("started", "C05:started-transfer", "non-trigger traffic started a transfer; probes %v", kinds)
		return
	}
	if !bytes.Equal(gotOut, wantOut) {
		d := vFirstDiff(gotOut, wantOut)
		rc.violate("output", "C05:output-altered:"+vKindAt(kinds, "out"), "remote output did not reach the terminal unmodified, in order and exactly once (%d bytes written, %d arrived, first difference at %d: want %s, got %s); options %s; history %v",
			len(wantOut), len(gotOut), d, vQuote(vTail(wantOut, d), 60), vQuote(vTail(gotOut, d), 60), rc.res.Scenario["options"], endings)
		return
	}
	if !bytes.Equal(gotIn, wantIn) {
		d := vFirstDiff(gotIn, wantIn)
		rc.violate("input", "C05:input-altered:"+vKindAt(kinds, "in"), "typed input did not reach the remote side unmodified, in order and exactly once (%d bytes typed, %d arrived, first difference at %d: want %s, got %s); options %s; history %v",
			len(wantIn), len(gotIn), d, vQuote(vTail(wantIn, d), 60), vQuote(vTail(gotIn, d), 60), rc.res.Scenario["options"], endings)
		return
	}
	rc.res.Scenario["clipboard_writes"] = len(clip)
	rc.res.Nontrivial = len(wantOut)+len(wantIn) > 0
}

func vTail(b []byte, from int) []byte {
	if from < 0 || from > len(b) {
		return nil
	}
	return b[from:]
}

func vKindSet(kinds []string) []string {
	seen := map[string]bool{}
	var out []string
	for _, k := range kinds {
		if !seen[k] {
			seen[k] = true
			out = append(out, k)
		}
	}
	sortStrings(out)
	return out
}

func vKindAt(kinds []string, dir string) string {
	for _, k := range kinds {
		if strings.HasPrefix(k, dir+":") {
			return "mixed"
		}
	}
	return "none"
}

// ---------------------------------------------------------------------------------------------
// C06

type vTrig struct {
	mode    string
	version string
	id      string
	port    string // "" = absent
	prefix  []byte
	text    []byte
}

func vGenTrigger(tp *verifsim.Tape, seq int) *vTrig {
	t := &vTrig{}
	t.mode = []string{"S", "R", "D"}[tp.Draw("t.mode", 3)]
	t.version = []string{"1.1.8", "0.0.0", "1.1.0", "1.1.2", "1.1.3", "1.1.4", "2.0.17", "10.200.3000", "1.0.0"}[tp.Draw("t.ver", 9)]
	base := int64(1000000000000) + int64(seq)*100000 + int64(tp.Draw("t.idn", 900))*100
	switch tp.Pick("t.id", 5, 1, 1, 1, 1, 1, 1) {
	case 0:
		t.id = fmt.Sprintf("%013d", base) // ..00 plain
	case 1:
		t.id = fmt.Sprintf("%013d", base+10) // windows server
	case 2:
		t.id = fmt.Sprintf("%013d", base+20) // tmux normal mode
	case 3:
		t.id = fmt.Sprintf("%013d", base+22) // re-tagged by a relay
	case 4:
		t.id = "" // old servers print no id
	case 5:
		t.id = fmt.Sprint(100 + seq) // short id
	default:
		t.id = fmt.Sprintf("%015d", base*100+int64(seq)) // longer than 13 digits
	}
	if t.id != "" && tp.Bool("t.port", 500) {
		t.port = fmt.Sprint(40000 + tp.Draw("t.portn", 20000))
	}
	if tp.Bool("t.prefix", 600) {
		t.prefix = vNoise(tp, 1+tp.Draw("t.plen", 60), false)
	}
	s := fmt.Sprintf("\x1b7\x07::TRZSZ:TRANSFER:%s:%s", t.mode, t.version)
	if t.id != "" {
		s += ":" + t.id
		if t.port != "" {
			s += ":" + t.port
		}
	}
	s += "\r\n"
	t.text = append(append([]byte{}, t.prefix...), s...)
	return t
}

func vScenarioC06(rc *runCtx) {
	if rc.param("slowwrite", "0") == "1" {
		vC06SlowWrite(rc)
		return
	}
	if rc.param("relaycc", "0") == "1" {
		vC06RelayCC(rc)
		return
	}
	if rc.param("relaymode", "0") == "1" {
		vC06Relay(rc)
		return
	}
	tp := rc.tape
	w := rc.w
	// a filter whose server side is scripted: every ACT is answered with a fail line
	kbd, term := w.NewLink("kbd"), w.NewLink("term")
	up, down := w.NewLink("up"), w.NewLink("down")
	client := w.NewProc("client")
	withConnector := tp.Bool("c06.connector", 500)
	var dialled []int
	ready1, ready2 := false, false
	var filter *TrzszFilter
	dst := filepath.Join(rc.dir, "dst")
	os.MkdirAll(dst, 0755)
	w.Go("client.main", client, func() {
		filter = NewTrzszFilter(kbd, term, up, down, TrzszOptions{TerminalColumns: 80})
		filter.SetDefaultDownloadPath(dst)
		if withConnector {
			filter.SetTunnelConnector(func(port int) net.Conn {
				verifsim.Yield("connector")
				dialled = append(dialled, port)
				return nil
			})
		}
		ready1 = true
	})
	// second filter: what the first one shows locally must not start anything there
	kbd2, term2 := w.NewLink("kbd2"), w.NewLink("term2")
	up2, down2 := w.NewLink("up2"), w.NewLink("down2")
	var filter2 *TrzszFilter
	w.Go("client2.main", client, func() {
		filter2 = NewTrzszFilter(kbd2, term2, up2, down2, TrzszOptions{TerminalColumns: 80})
		filter2.SetDefaultDownloadPath(dst)
		ready2 = true
	})
	// scripted server: answers an ACT or swallows the client's fail
	answered := 0
	realServer := false
	up.OnWrite = func(l *verifsim.Link, d []byte) {
		if realServer {
			return
		}
		if bytes.Contains(d, []byte("#ACT:")) {
			answered++
			nl := "\n"
			if bytes.Contains(d, []byte("!\n")) {
				nl = "!\n"
			}
			w.Go("server.answer", nil, func() {
				verifsim.Sleep(5 * time.Millisecond)
				down.Write([]byte("#fail:" + vEncode([]byte("refused by the scripted server")) + nl))
			})
		}
	}
	x := &xferWorld{rc: rc, w: w, o: &xferOpts{}}
	w.Run(func() bool { return ready1 && ready2 })
	idle := func() {
		// wait until the filter is idle again (the failed transfer drains its input for a while)
		for i := 0; i < 400; i++ {
			x.settle(100 * time.Millisecond)
			if !filter.IsTransferringFiles() {
				break
			}
		}
		x.settle(700 * time.Millisecond)
	}
	count := func(from int) (acts, fails int, stream []byte) {
		s, _, _ := up.Snapshot()
		stream = s[from:]
		for _, m := range vParseWire(stream, false) {
			switch m.Typ {
			case "ACT":
				acts++
			case "fail", "FAIL":
				fails++
			}
		}
		return
	}
	// the record of a transfer that was completed, exactly as the real server printed it (trigger ... "Saved N
	// files"), scrolls by again in one read: it starts nothing - whatever the number of files, for which the
	// message takes different forms
	if tp.Bool("c06.realdone", 250) {
		src := filepath.Join(rc.dir, "src-done")
		os.MkdirAll(src, 0755)
		nf := []int{1, 2, 5, 20, 21, 24, 40}[tp.Draw("c06.realdone.n", 7)]
		args := []string{"tsz", "-q"}
		for i := 0; i < nf; i++ {
			p := filepath.Join(src, fmt.Sprintf("IMG_%04d.JPG", 2000+i))
			vWriteFile(p, []byte(fmt.Sprintf("picture %d", i)))
			args = append(args, p)
		}
		sp := w.NewProc("realserver")
		sp.Args = args
		sp.Stdin = &verifsim.SimFile{R: up}
		sp.Stdout = &verifsim.SimFile{W: down}
		sp.Stderr = &verifsim.SimFile{W: down}
		realServer = true
		fromDown := down.NSentInt()
		sp.Start("realserver.main", func() int { return TszMain() })
		w.Run(func() bool { return sp.Exited && !filter.IsTransferringFiles() || w.Now() > 2*time.Minute })
		x.settle(time.Second)
		realServer = false
		d, _, _ := down.Snapshot()
		rec := d[fromDown:]
		if i := bytes.Index(rec, []byte("::TRZSZ:TRANSFER:")); i >= 0 && sp.Exited && sp.ExitCode == 0 && !filter.IsTransferringFiles() {
			rec = append([]byte{}, rec[i:]...)
			rc.fault("record-of-completed-transfer-replayed")
			from := up.NSentInt()
			prevAtomic := down.Atomic
			down.Atomic = func(d []byte) bool { return true }
			down.Write(rec)
			down.Atomic = prevAtomic
			idle()
			if acts, fails, stream := count(from); acts+fails > 0 {
				rc.violate("scroll-back", "C06:completed-record-restarts", "the record of a completed download of %d files, as the real server printed it (%s ... %s), started a transfer when it scrolled by again in one read: the client wrote %s",
					nf, vQuote(rec, 60), vQuote(rec[vMax(0, len(rec)-80):], 80), vQuote(stream, 80))
				return
			}
		}
	}
	// the record of a transfer that the user cancelled in the file dialog, exactly as the real server printed it,
	// scrolls by again in one read: it starts nothing (the words the client looks for are the servers' words)
	if tp.Bool("c06.realcancel", 250) {
		if dir := os.Getenv("PATH"); dir != "" && !strings.Contains(dir, ":") {
			z := filepath.Join(dir, "zenity")
			if os.WriteFile(z, []byte("#!/bin/sh\nexit 1\n"), 0755) == nil {
				src := filepath.Join(rc.dir, "src-real")
				os.MkdirAll(src, 0755)
				vWriteFile(filepath.Join(src, "f.txt"), []byte("content"))
				upload := tp.Bool("c06.realcancel.up", 500)
				sp := w.NewProc("realserver")
				if upload {
					sp.Args = []string{"trz", dst}
				} else {
					sp.Args = []string{"tsz", filepath.Join(src, "f.txt")}
				}
				sp.Stdin = &verifsim.SimFile{R: up}
				sp.Stdout = &verifsim.SimFile{W: down}
				sp.Stderr = &verifsim.SimFile{W: down}
				filter.SetDefaultDownloadPath("")
				realServer = true
				fromDown := down.NSentInt()
				sp.Start("realserver.main", func() int {
					if upload {
						return TrzMain()
					}
					return TszMain()
				})
				w.Run(func() bool { return sp.Exited && !filter.IsTransferringFiles() || w.Now() > 2*time.Minute })
				x.settle(time.Second)
				os.Remove(z)
				realServer = false
				filter.SetDefaultDownloadPath(dst)
				d, _, _ := down.Snapshot()
				rec := d[fromDown:]
				if i := bytes.Index(rec, []byte("::TRZSZ:TRANSFER:")); i >= 0 && sp.Exited && !filter.IsTransferringFiles() {
					rec = append([]byte{}, rec[i:]...)
					rc.fault("record-of-cancelled-transfer-replayed")
					from := up.NSentInt()
					prevAtomic := down.Atomic
					down.Atomic = func(d []byte) bool { return true }
					down.Write(rec)
					down.Atomic = prevAtomic
					idle()
					if acts, fails, stream := count(from); acts+fails > 0 {
						rc.violate("scroll-back", "C06:cancelled-record-restarts", "the record of a cancelled %s, as the real server printed it (%s), started a transfer when it scrolled by again in one read: the client wrote %s",
							map[bool]string{true: "upload", false: "download"}[upload], vQuote(rec, 120), vQuote(stream, 80))
						return
					}
				}
			}
		}
	}
	n := 3 + tp.Draw("c06.items", 10)
	var items []string
	seenIDs := map[string]bool{}
	var recent []string
	for i := 0; i < n; i++ {
		from := up.NSentInt()
		termFrom := term.NSentInt()
		kind := tp.Pick("c06.item", 5, 3, 2, 2, 2, 2)
		var chunk []byte
		expect := 0
		var tr *vTrig
		switch kind {
		case 0: // fresh genuine trigger
			tr = vGenTrigger(tp, i)
			chunk = tr.text
			expect = 1
			if vDedupID(tr.id) && seenIDs[tr.id] {
				expect = 0
			}
			items = append(items, "trigger:"+tr.mode+":"+tr.version+":"+vIDClass(tr.id)+":"+fmt.Sprint(tr.port != ""))
		case 1: // non-trigger: truncation or one-byte corruption of a genuine one
			tr0 := vGenTrigger(tp, i)
			b := append([]byte{}, tr0.text...)
			i0 := bytes.Index(b, []byte("::TRZSZ"))
			core := len("::TRZSZ:TRANSFER:S:1.1.8")
			if tp.Bool("c06.trunc", 500) {
				b = b[:i0+1+tp.Draw("c06.cut", core-2)]
				items = append(items, "truncated")
			} else {
				p := i0 + tp.Draw("c06.corrupt", len("::TRZSZ:TRANSFER:"))
				b[p] ^= 0x20
				items = append(items, "corrupted")
			}
			chunk = b
		case 2: // redraw: repeat an id seen before (only ids that are deduplicated, within the last 50)
			if len(recent) == 0 {
				continue
			}
			id := recent[tp.Draw("c06.recent", len(recent))]
			chunk = []byte(fmt.Sprintf("\x1b[H\x1b[2Jscreen redraw\r\n\x1b7\x07::TRZSZ:TRANSFER:S:1.1.8:%s:0\r\n", id))
			items = append(items, "redraw:"+vIDClass(id))
		case 5: // two triggers in one read (a redraw or an earlier invocation, then a fresh one): the last one counts
			first := vGenTrigger(tp, 700+i)
			if len(recent) > 0 && tp.Bool("c06.firstredraw", 500) {
				id := recent[tp.Draw("c06.recent2", len(recent))]
				first.text = []byte(fmt.Sprintf("\x1b7\x07::TRZSZ:TRANSFER:R:1.1.8:%s:0\r\n", id))
			}
			tr = vGenTrigger(tp, i)
			chunk = append(append(append([]byte{}, first.text...), vNoise(tp, tp.Draw("c06.between", 20), false)...), tr.text...)
			tr.text = chunk
			expect = 1
			if vDedupID(tr.id) && seenIDs[tr.id] {
				expect = 0
			}
			items = append(items, "two-in-one-read:"+tr.mode+":"+vIDClass(tr.id))
		case 4: // tmux control-mode framing: only usable through a tunnel
			tr = vGenTrigger(tp, i)
			tr.prefix = nil
			core := fmt.Sprintf("::TRZSZ:TRANSFER:%s:%s", tr.mode, tr.version)
			if tr.id != "" {
				core += ":" + tr.id
				if tr.port != "" {
					core += ":" + tr.port
				}
			}
			chunk = []byte([]string{"%output %1 ", "%extended-output %3 0 : "}[tp.Draw("c06.ctl", 2)] + "\\0337\\007" + core + "\\015\\012\r\n")
			tr.text = chunk
			if withConnector && tr.port != "" {
				expect = 1
				if vDedupID(tr.id) && seenIDs[tr.id] {
					expect = 0
				}
			}
			items = append(items, "tmux-control:"+tr.mode+":"+vIDClass(tr.id)+":"+fmt.Sprint(tr.port != ""))
		default: // scroll-back of a finished transfer
			tail := []string{"Saved 1 file/directory to /tmp\r\n- a.txt\r\n", "Cancelled\r\n", "Stopped\r\n", "Interrupted\r\n", "#CFG:eJwEwEsKAjEM\n"}[tp.Draw("c06.tail", 5)]
			if strings.HasPrefix(tail, "Saved") && tp.Bool("c06.tailreal", 700) {
				// what the program itself prints after a transfer of that many files (the message takes several forms)
				var names []string
				for k, nn := 0, []int{1, 2, 5, 20, 21, 24, 60}[tp.Draw("c06.tailn", 7)]; k < nn; k++ {
					names = append(names, fmt.Sprintf("IMG_%04d.JPG", 2000+k))
				}
				tail = formatSavedFiles(names, []string{"/tmp", "", "/home/user/Downloads"}[tp.Draw("c06.taildst", 3)]) + "\r\n"
			}
			tr0 := vGenTrigger(tp, 500+i)
			chunk = append(append([]byte{}, tr0.text...), []byte("\x1b8\x1b[0J"+tail)...)
			if len(chunk)-bytes.Index(chunk, []byte("::TRZSZ")) <= 40+len(tail) {
				// the look-ahead only sees text beyond 40 bytes after the marker
			}
			items = append(items, "scroll-back")
		}
		dialBefore := len(dialled)
		w.Go("feed", nil, func() { down.Write(chunk) })
		x.settle(300 * time.Millisecond)
		acts, fails, stream := count(from)
		started := acts + fails
		if acts == 0 && fails > 0 {
			started = 1 // an upload trigger with nothing to upload ends in one fail line
			if fails > 1 {
				started = fails
			}
		}
		if expect == 1 && tr != nil && tr.mode == "S" && acts != 1 {
			rc.violate("trigger", "C06:not-started:"+vIDClass(tr.id), "item %d: a genuine %s trigger (version %s, id %q, port %q, %d prefix bytes) produced %d ACT lines; server side saw %s", i, tr.mode, tr.version, tr.id, tr.port, len(tr.prefix), acts, vQuote(stream, 100))
			return
		}
		if expect == 1 && started != 1 {
			rc.violate("trigger", "C06:start-count:"+items[len(items)-1], "item %d (%s): expected exactly one transfer to start, the filter wrote %d ACT and %d fail lines: %s", i, items[len(items)-1], acts, fails, vQuote(stream, 120))
			return
		}
		if expect == 0 && (started != 0 || filter.IsTransferringFiles()) {
			rc.violate("trigger", "C06:false-start:"+items[len(items)-1], "item %d (%s): nothing may start, but the filter wrote %d ACT and %d fail lines (transferring=%v); chunk %s", i, items[len(items)-1], acts, fails, filter.IsTransferringFiles(), vQuote(chunk, 120))
			return
		}
		shown, _, _ := term.Snapshot()
		shown = shown[termFrom:]
		if expect == 0 && kind != 2 {
			if !bytes.Contains(shown, chunk) {
				rc.violate("display", "C06:negative-altered", "item %d (%s): a non-trigger did not reach the terminal unmodified: fed %s, shown %s", i, items[len(items)-1], vQuote(chunk, 80), vQuote(shown, 80))
				return
			}
		}
		if expect == 1 && tr != nil {
			// fields of the ACT match what the trigger advertised
			if acts == 1 {
				m := vFindMsg(vParseWire(stream, false), "ACT")
				act, err := vDecodeJSON(m.Payload)
				if err != nil {
					rc.violate("trigger", "C06:act-undecodable", "item %d: %v", i, err)
					return
				}
				old := tr.version == "1.1.0" || tr.version == "1.1.2" || tr.version == "1.1.3"
				if p, _ := act["protocol"].(float64); old && p != 2 {
					rc.violate("trigger", "C06:old-version-protocol", "item %d: server version %s must be offered protocol 2, ACT says %v", i, tr.version, act["protocol"])
					return
				}
				winID := tr.id == "1" || (len(tr.id) == 13 && strings.HasSuffix(tr.id, "10"))
				if winID != m.Win {
					rc.violate("trigger", "C06:windows-framing", "item %d: id %q: windows framing of the ACT is %v, expected %v", i, tr.id, m.Win, winID)
					return
				}
			}
			if withConnector {
				wantPort := 0
				if tr.port != "" {
					fmt.Sscan(tr.port, &wantPort)
				}
				if len(dialled) != dialBefore+1 || dialled[len(dialled)-1] != wantPort {
					rc.violate("trigger", "C06:connector-port", "item %d: trigger advertised port %q, the connector was called with %v", i, tr.port, dialled[dialBefore:])
					return
				}
			}
			// shown locally in a form a second wrapper does not react to
			from2 := up2.NSentInt()
			w.Go("feed2", nil, func() { down2.Write(shown) })
			x.settle(300 * time.Millisecond)
			s2, _, _ := up2.Snapshot()
			if len(s2[from2:]) != 0 || filter2.IsTransferringFiles() {
				rc.violate("display", "C06:second-wrapper-reacts", "item %d: what the filter showed locally (%s) started a transfer in a second filter: %s", i, vQuote(shown, 100), vQuote(s2[from2:], 80))
				return
			}
			if vDedupID(tr.id) {
				seenIDs[tr.id] = true
				recent = append(recent, tr.id)
				if len(recent) > 40 {
					recent = recent[1:]
				}
			}
		}
		idle()
	}
	rc.res.Scenario["items"] = items
	rc.res.ClassKey = fmt.Sprintf("conn=%v %v", withConnector, vKindSet(items))
	rc.res.Nontrivial = true
}

// ids that the detector deduplicates (tmux / windows / non-13-digit ids longer than 6)
func vDedupID(id string) bool {
	return len(id) > 6 && !(len(id) == 13 && strings.HasSuffix(id, "00"))
}

func vIDClass(id string) string {
	switch {
	case id == "":
		return "noid"
	case len(id) < 13:
		return "short"
	case len(id) > 13:
		return "long"
	}
	return "13:" + id[11:]
}
