package trzsz

import (
	"bytes"
	"fmt"
	"math/rand"
	"os"
	"path/filepath"
	"strings"
	"time"

	"github.com/trzsz/trzsz-go/internal/verifsim"
)

func init() {
	vScenarios["C04"] = vScenarioC04
}

// vCustomTrz is a trz-like server that announces an arbitrary escape table: the real handshake,
// configuration and receive code with one argument replaced.
func vCustomTrz(chars [][]unicode) int {
	args := parseTrzArgs(verifsim.Args())
	path, err := filepath.Abs(args.Path)
	if err != nil {
		return -1
	}
	args.Path = path
	out := verifsim.Stdout()
	uniqueID := (time.Now().UnixMilli() % 10e10) * 100
	out.WriteString(fmt.Sprintf("\x1b7\x07::TRZSZ:TRANSFER:%s:%s:%013d:%d\r\n", "R", kTrzszVersion, uniqueID, 0))
	transfer := newTransfer(out, nil, false, nil)
	wrapTransferInput(transfer, verifsim.Stdin(), false)
	run := func() error {
		action, err := transfer.recvAction()
		if err != nil {
			return err
		}
		if !action.Confirm {
			transfer.serverExit("Cancelled")
			return nil
		}
		if err := transfer.sendConfig(&args.baseArgs, action, chars, noTmuxMode, -1); err != nil {
			return err
		}
		localNames, err := transfer.recvFiles(args.Path, nil)
		if err != nil {
			return err
		}
		if _, err := transfer.recvExit(); err != nil {
			return err
		}
		transfer.serverExit(formatSavedFiles(localNames, args.Path))
		return nil
	}
	if err := run(); err != nil {
		transfer.serverError(err)
	}
	return 0
}

// vGenEscapeTable: a well-formed announced table: distinct protected bytes (always the leader and
// '~'), distinct codes outside the protected set.
func vGenEscapeTable(tp *verifsim.Tape) ([][]unicode, map[byte]byte) {
	framing := "\"\\#:!=/+\n0123456789ABCDEFGHIJKLMNOPQRSTUVWXYZabcdefghijklmnopqrstuvwxyz"
	prot := map[byte]bool{0xee: true, 0x7e: true}
	order := []byte{0xee, 0x7e}
	n := tp.Draw("tbl.n", 30)
	for len(order) < 2+n {
		b := byte(tp.Draw("tbl.char", 256))
		if prot[b] || strings.IndexByte(framing, b) >= 0 {
			continue
		}
		prot[b] = true
		order = append(order, b)
	}
	used := map[byte]bool{}
	table := map[byte]byte{}
	var chars [][]unicode
	// the leader itself may serve as a code (the built-in tables use it for the leader; any one byte may have it:
	// it is on the wire in front of every code anyway)
	leaderCodeFor := -1
	if tp.Bool("tbl.leadercode", 400) {
		leaderCodeFor = tp.Draw("tbl.leadercodefor", len(order))
	}
	for i, b := range order {
		var c byte
		for {
			c = byte(tp.Draw("tbl.code", 256))
			if i == leaderCodeFor && !used[0xee] {
				c = 0xee
			}
			if (!prot[c] || c == 0xee) && !used[c] && c != '\n' && c != '"' && c != '\\' {
				break
			}
		}
		used[c] = true
		table[b] = c
		chars = append(chars, []unicode{unicode(rune(b)), unicode(rune(0xee)) + unicode(rune(c))})
	}
	return chars, table
}

func vScenarioC04(rc *runCtx) {
	tp := rc.tape
	w := rc.w
	mode := rc.param("mode", "builtin") // builtin | custom
	badCode := tp.Bool("c04.badcode", 200)
	cfg := vDrawConfig(tp, false)
	cfg.binary = true
	cfg.escapeAll = tp.Bool("c04.e", 500)
	cfg.timeout = 5
	cfg.trigVersion = ""
	cfg.protocol = []int{0, 2, 3, 1}[tp.Pick("c04.proto", 4, 1, 1, 1)]
	cfg.bufSize = []string{"", "1K", "4k", "64K", "1M"}[tp.Draw("c04.buf", 5)]
	if mode == "custom" {
		cfg.upload = true
	}
	src := filepath.Join(rc.dir, "src")
	dst := filepath.Join(rc.dir, "dst")
	os.MkdirAll(src, 0755)
	os.MkdirAll(dst, 0755)
	// content rich in protected bytes, leaders, and leaders at chunk ends
	var paths []string
	nf := 1 + tp.Draw("c04.nf", 3)
	for i := 0; i < nf; i++ {
		size := []int{0, 1, 1023, 1024, 1025, 10239, 10240, 10241, 40000, 131072, 200000}[tp.Draw("c04.size", 11)]
		data := make([]byte, size)
		hot := []byte{0xee, 0x7e, 0x0d, 0x10, 0x11, 0x13, 0x18, 0x1b, 0x1d, 0x8d, 0x90, 0x91, 0x93, 0x9d, 0x02}
		switch tp.Draw("c04.content", 5) {
		case 4:
			// well-formed UTF-8 text whose multi-byte characters contain protected bytes (the leader 0xEE opens
			// the private-use block U+E000-U+EFFF; 0x8D/0x90/0x91/0x93/0x9D occur as continuation bytes) and no
			// protected ASCII byte at all
			words := []string{"\ue0b0", "\ue0a0", "\uee00", "\uefff", "Ñ", "Ó", "道", "遍", "遐", "遑", "遝", "中文", "plain ascii words", "\n", " ", "résumé"}
			var b []byte
			for len(b) < size {
				b = append(b, words[tp.Draw("c04.word", len(words))]...)
			}
			data = b
			if tp.Bool("c04.textplain", 700) {
				cfg.compress = "no"
			}
		case 0:
			for j := range data {
				data[j] = hot[tp.Draw("c04.hot", len(hot))]
			}
		case 1:
			for j := range data {
				data[j] = 0xee
			}
		case 2:
			rnd := tp.Bytes("c04.rnd", size)
			for j := range data {
				data[j] = rnd[j]
				if rnd[j]&7 == 0 {
					data[j] = hot[int(rnd[j]>>3)%len(hot)]
				}
			}
		default:
			for j := range data {
				data[j] = byte(j)
			}
		}
		p := filepath.Join(src, fmt.Sprintf("esc%d.bin", i))
		vWriteFile(p, data)
		paths = append(paths, p)
	}
	// one acknowledgement may be seconds late: the sender then makes its chunks smaller and cuts what it had
	// already escaped into pieces - anywhere, between a leader and its code included
	lateAck := !badCode && cfg.upload && mode == "builtin" && cfg.protocol != 1 && tp.Bool("c04.lateack", 150)
	if lateAck {
		hot := []byte{0xee, 0x7e, 0xee, 0x0d, 0xee, 0x11}
		data := make([]byte, 150000+tp.Draw("c04.latesize", 150000))
		r := rand.New(rand.NewSource(int64(tp.Draw("c04.lateseed", 1<<30))))
		for j := range data {
			data[j] = hot[r.Intn(len(hot))]
			if r.Intn(3) == 0 {
				data[j] = byte(r.Intn(256))
			}
		}
		p := filepath.Join(src, "late-ack.bin")
		vWriteFile(p, data)
		paths = append([]string{p}, paths...)
		cfg.compress = "no"
	}
	o := cfg.opts()
	o.srcPaths = paths
	o.dstDir = dst
	o.profile = transportProfile{segPm: []int{0, 300, 1000}[tp.Draw("c04.seg", 3)], coalPm: 100, bytesPerMs: []int{0, 2000, 40}[tp.Pick("c04.bw", 3, 2, 1)]}
	o.simCap = 60 * time.Minute
	var table map[byte]byte
	var chars [][]unicode
	if mode == "custom" {
		chars, table = vGenEscapeTable(tp)
		_ = table
		if tp.Bool("c04.emptytable", 120) {
			// a table that protects nothing is an announced table too
			chars, table = [][]unicode{}, map[byte]byte{}
		}
		o.serverMain = func() int { return vCustomTrz(chars) }
	}
	x := newXferWorld(rc, o)
	if lateAck {
		vLateAck(rc, x, vArmAfterCfg(x), 6+tp.Draw("c04.lateat", 24), time.Duration(2200+tp.Draw("c04.latefor", 1500))*time.Millisecond, nil)
	}
	// targeted fault: an escape pair the table does not define
	dataLink := x.up[0]
	if !cfg.upload {
		dataLink = x.downLast()
	}
	replaced := ""
	if badCode {
		armed := vArmAfterCfg(x)
		prev := dataLink.Mangle
		blockNext := false
		dataLink.Mangle = func(l *verifsim.Link, d []byte) []byte {
			if prev != nil {
				d = prev(l, d)
			}
			if replaced != "" || !armed() {
				return d
			}
			// only a write that begins with a data header: the escaped block behind it starts at a pair boundary,
			// so the first 0xee in it is a leader for certain (a write that begins in the middle of a block may
			// begin between a leader and its code)
			start := -1
			if blockNext {
				blockNext, start = false, 0 // the header went out in a write of its own: this one is the block
			} else if bytes.HasPrefix(d, []byte("#DATA:")) {
				nl := bytes.IndexByte(d, '\n')
				if nl == len(d)-1 {
					blockNext = true
				} else if nl > 0 {
					start = nl + 1
				}
			}
			if start < 0 {
				return d
			}
			i := bytes.IndexByte(d[start:], 0xee)
			if i < 0 || start+i+1 >= len(d) {
				return d
			}
			i += start
			// the announced table, code -> protected byte
			inv := map[byte]byte{}
			tbl := chars
			if tbl == nil {
				tbl = getEscapeChars(cfg.escapeAll)
			}
			for _, pair := range tbl {
				a, b := []rune(string(pair[0])), []rune(string(pair[1]))
				if len(a) == 1 && len(b) == 2 {
					inv[byte(b[1])] = byte(a[0])
				}
			}
			// preferred replacement: the protected byte itself in place of its code. The pair is then
			// undefined, and an implementation that "guesses" (takes the byte literally) would even restore
			// the right data and pass the MD5 check.
			if x, ok := inv[d[i+1]]; ok {
				if _, isCode := inv[x]; !isCode {
					out := append([]byte(nil), d...)
					out[i+1] = x
					replaced = fmt.Sprintf("0xee 0x%02x -> 0xee 0x%02x (the protected byte itself)", d[i+1], x)
					rc.fault("undefined-escape-code")
					return out
				}
			}
			for c := 0xf0; c < 0x100; c++ {
				if _, def := inv[byte(c)]; def || byte(c) == d[i+1] {
					continue
				}
				out := append([]byte(nil), d...)
				out[i+1] = byte(c)
				replaced = fmt.Sprintf("0xee 0x%02x -> 0xee 0x%02x", d[i+1], c)
				rc.fault("undefined-escape-code")
				return out
			}
			return d
		}
	}
	rc.res.ClassKey = fmt.Sprintf("%s %s bad=%v", mode, cfg.key(), badCode)
	rc.res.Scenario["config"] = cfg.key()
	rc.res.Scenario["flags"] = strings.Join(o.flags, " ")
	rc.res.Scenario["mode"] = mode
	before := vSnapshot(dst)
	x.start()
	w.Run(x.finished)
	rep := x.report()
	rc.res.Scenario["replaced"] = replaced
	if w.StepCap {
		return
	}
	if replaced != "" {
		// the receiving side must reject it: nobody may report success
		if rep.clientOK || rep.serverOK {
			rc.violate("unknown-code", "C04:unknown-code-accepted", "an escape pair the table does not define (%s) was accepted: client ok=%v server ok=%v", replaced, rep.clientOK, rep.serverOK)
			return
		}
		if !rep.serverExited || x.filter.IsTransferringFiles() {
			rc.violate("unknown-code", "C04:hang-after-unknown-code", "after an undefined escape pair (%s) the transfer never ended", replaced)
			return
		}
		rc.res.Nontrivial = true
		return
	}
	vCheckFidelity(rc, x, rep, before, true)
	if rc.res.Class != "ok" {
		rc.res.Sig = strings.Replace(rc.res.Sig, "C01:", "C04:", 1)
		return
	}
	rc.res.Nontrivial = false
	// was binary mode actually negotiated, and with which table?
	if b, _ := rep.cfg["binary"].(bool); !b {
		rc.res.Scenario["note"] = "binary mode not negotiated"
		return
	}
	prot := map[byte]bool{}
	codes := map[byte]bool{}
	decode := map[byte]byte{}
	if ec, ok := rep.cfg["escape_chars"].([]any); ok {
		for _, pair := range ec {
			p, ok := pair.([]any)
			if !ok || len(p) != 2 {
				continue
			}
			a, _ := p[0].(string)
			b, _ := p[1].(string)
			ar, br := []rune(a), []rune(b)
			if len(ar) == 1 && len(br) == 2 {
				prot[byte(ar[0])] = true
				codes[byte(br[1])] = true
				decode[byte(br[1])] = byte(ar[0])
			}
		}
	}
	rc.res.Scenario["table_size"] = len(prot)
	announced := len(prot)
	if mode != "custom" {
		// what the built-in tables promise, whatever the CFG says: '~' always, with -e also the control bytes
		prot[0x7e] = true
		if cfg.escapeAll {
			for _, c := range []byte{0x0d, 0x10, 0x11, 0x13, 0x18, 0x1b, 0x1d} {
				prot[c] = true
			}
		}
	}
	if cfg.upload && len(prot) > 0 {
		// every byte the client wrote between ACT and EXIT
		up, _, _ := x.up[0].Snapshot()
		msgs := vParseWire(up, true)
		act := vFindMsg(msgs, "ACT")
		exit := vLastMsg(msgs, "EXIT")
		if act != nil && exit != nil {
			// the escaped payload is the concatenation of the sized blocks (a leader and its code may sit
			// in two consecutive blocks); the lines around them are scanned as they are
			var region []byte
			for _, m := range msgs {
				if m.Off < act.End || m.Off >= exit.Off {
					continue
				}
				if m.Typ == "DATA" && m.BinLen >= 0 {
					region = append(region, up[m.End-m.BinLen:m.End]...)
					for _, c := range up[m.Off : m.End-m.BinLen] {
						if prot[c] {
							rc.violate("wire", fmt.Sprintf("C04:protected-byte-on-wire:0x%02x", c), "protected byte 0x%02x in a protocol line written by the client", c)
							return
						}
					}
				} else {
					for _, c := range up[m.Off:m.End] {
						if prot[c] {
							rc.violate("wire", fmt.Sprintf("C04:protected-byte-on-wire:0x%02x", c), "protected byte 0x%02x in the %s line written by the client", c, m.Typ)
							return
						}
					}
				}
			}
			for i := 0; i < len(region); i++ {
				c := region[i]
				if c == 0xee && announced > 0 {
					if i+1 >= len(region) || !codes[region[i+1]] {
						rc.violate("wire", "C04:leader-without-code", "the client wrote the leader byte 0xee followed by 0x%02x, which the announced table does not define, at offset %d of the escaped payload", region[vMin(i+1, len(region)-1)], i)
						return
					}
					i++ // the code byte
					continue
				}
				if prot[c] {
					rc.violate("wire", fmt.Sprintf("C04:protected-byte-on-wire:0x%02x", c), "the client wrote the protected byte 0x%02x at offset %d of the escaped payload although the announced table (%d entries) promises to keep it off the wire; context %s",
						c, i, len(prot), vQuote(region[vMax(0, i-12):vMin(len(region), i+12)], 60))
					return
				}
			}
			rc.w.Probe("upload-stream-scanned")
			// the first two protocol versions have no compression in binary mode (peers of those releases expect
			// none): what the client wrote, with the escapes undone, is the files themselves, one after the other
			if pv, _ := rep.cfg["protocol"].(float64); pv <= 2 && !cfg.dirMode && !cfg.overwrite && announced > 0 {
				var want []byte
				plain := true
				for _, sp := range o.srcPaths {
					st, err := os.Stat(sp)
					if err != nil || !st.Mode().IsRegular() {
						plain = false
						break
					}
					b, _ := os.ReadFile(sp)
					want = append(want, b...)
				}
				if plain {
					var got []byte
					for i := 0; i < len(region); i++ {
						if region[i] == 0xee && i+1 < len(region) {
							got = append(got, decode[region[i+1]])
							i++
						} else {
							got = append(got, region[i])
						}
					}
					if !bytes.Equal(got, want) {
						rc.violate("wire", "C04:binary-payload-not-the-file:protocol<=2", "protocol %v, binary: the client's data blocks, escapes undone, are %d bytes and differ from the %d bytes of the file(s) - a peer of that protocol version expects the plain bytes (first difference at %d)",
							pv, len(got), len(want), vFirstDiff(got, want))
						return
					}
					rc.w.Probe("old-protocol-binary-payload-compared")
				}
			}
		}
	}
	rc.res.Probes = rc.w.Probes
	rc.res.Nontrivial = true
}

func vMax(a, b int) int {
	if a > b {
		return a
	}
	return b
}

