package trzsz

import (
	"bytes"
	"encoding/json"
	"fmt"
	"math/rand"
	"regexp"
	"strings"
	"time"

	"github.com/trzsz/trzsz-go/internal/verifsim"
)

func init() {
	vScenarios["C13"] = vScenarioC13
}

// vOvertake (C14 batch "overtake"): the end-of-transfer marker is sent as soon as the peer's
// handshake line has been seen, so that it can reach the relay before the relay has left the
// handshaking state. The relay must still return to standby.
var vOvertake = false

// A scripted party writes a sequence of chunks; before some chunks it waits for an event.
type vChunk struct {
	data    []byte
	waitFor string        // "" | "trigger" | "act" | "cfg" | "exit" (observed on the relay's output towards this party)
	sleep   time.Duration // think time before writing
	kind    string        // plain | trigger | junk | act | cfg | exit | fail | ctrlc
	round   int
}

type vRound struct {
	outcome string // confirm | cancel | bad-act | bad-cfg
	ender   string // exit | fail-client | fail-server | ctrlc
}

var vFailRe = regexp.MustCompile(`#FAIL:[A-Za-z0-9+/=]+\n`)

// vNoise produces bytes that contain no LF (when lfFree), no protocol markers and no digit runs.
func vNoise(tp *verifsim.Tape, n int, lfFree bool) []byte {
	alpha := []byte("abcxyz XYZ\t\x1b[m;$%&()_-.,\r")
	if !lfFree {
		alpha = append(alpha, '\n', '\n')
	} else {
		// junk in front of a handshake line: an alphabet of its own, so that "a prefix of the junk was
		// forwarded" can be told apart from the bytes that follow
		alpha = []byte("JKQjkq")
	}
	b := make([]byte, n)
	for i := range b {
		b[i] = alpha[tp.Draw("noise", len(alpha))]
	}
	return b
}

func vScenarioC13(rc *runCtx) {
	if rc.param("backpressure", "0") == "1" {
		vC13Backpressure(rc)
		return
	}
	tp := rc.tape
	w := rc.w
	vOvertake = rc.param("overtake", "0") == "1"
	rounds := 1 + tp.Pick("c13.rounds", 4, 3, 2)
	if vOvertake {
		rounds = 1
	}
	var plan []vRound
	for i := 0; i < rounds; i++ {
		r := vRound{outcome: []string{"confirm", "cancel", "bad-act", "bad-cfg"}[tp.Pick("c13.outcome", 5, 2, 2, 2)]}
		if vOvertake {
			r.outcome = "confirm"
		}
		r.ender = []string{"exit", "fail-client", "fail-server", "ctrlc"}[tp.Pick("c13.ender", 4, 2, 2, 2)]
		plan = append(plan, r)
	}
	// with the trace log on, everything that passes the relay is also written to a file; long bursts included
	traceLog := !vOvertake && tp.Bool("c13.tracelog", 200)
	cIn := w.NewLink("c>r")
	cOut := w.NewLink("r>c")
	sIn := w.NewLink("r>s")
	sOut := w.NewLink("s>r")
	seg := []int{0, 300, 1000}[tp.Draw("c13.seg", 3)]
	for _, l := range []*verifsim.Link{cIn, sOut} {
		l.SegPm, l.CoalescePm = seg, []int{0, 300}[tp.Draw("c13.coal", 2)]
		// the relay's detectors work per read: a trigger, an end-of-transfer marker or a lone Ctrl-C
		// always arrives in one read of its own chunk
		l.Atomic = func(d []byte) bool {
			return len(d) > 4096 || bytes.Contains(d, []byte("TRACE_LOG>")) || bytes.Contains(d, []byte("::TRZSZ:TRANSFER:")) || bytes.Contains(d, []byte("#EXIT:")) || bytes.Contains(d, []byte("#FAIL:")) ||
				bytes.Contains(d, []byte("#fail:")) || (len(d) == 1 && d[0] == 0x03)
		}
		l.SealAtomic = true
	}

	// build the two scripts
	var cs, ss []vChunk
	mkAct := func(confirm bool, bad bool) []byte {
		act := map[string]any{"lang": "go", "version": "1.1.8", "confirm": confirm, "newline": "\n", "protocol": 2 + tp.Draw("c13.proto", 7),
			"binary": true, "support_dir": true}
		js, _ := json.Marshal(act)
		if bad {
			switch tp.Draw("c13.badact", 3) {
			case 0:
				return []byte("#ACT:!!!notbase64!!!\n")
			case 1:
				return []byte("#ACT:" + vEncode([]byte(`{"confirm": tru`)) + "\n")
			default:
				return []byte("#XYZ:" + vEncode(js) + "\n")
			}
		}
		return []byte("#ACT:" + vEncode(js) + "\n")
	}
	mkCfg := func(bad bool) []byte {
		cfg := map[string]any{"lang": "go", "bufsize": 10485760, "timeout": 20, "protocol": 4, "quiet": tp.Bool("c13.q", 500), "overwrite": true}
		js, _ := json.Marshal(cfg)
		if bad {
			switch tp.Draw("c13.badcfg", 3) {
			case 0:
				return []byte("#CFG:*notbase64*\n")
			case 1:
				return []byte("#CFG:" + vEncode([]byte(`[1,2`)) + "\n")
			default:
				return []byte("#ABC:" + vEncode(js) + "\n")
			}
		}
		return []byte("#CFG:" + vEncode(js) + "\n")
	}
	plainN := func(max int) int { return tp.Draw("c13.plen", max) }
	think := func() time.Duration {
		return time.Duration(tp.Pick("c13.think", 6, 2, 1)) * time.Duration(1+tp.Draw("c13.ms", 20)) * time.Millisecond
	}
	for r, rd := range plan {
		id := fmt.Sprintf("%013d", int64(4668480000000)+int64(r)*100)
		// server side of round r
		ss = append(ss, vChunk{data: vNoise(tp, plainN(60), false), kind: "plain", round: r, sleep: think()})
		if traceLog && tp.Bool("c13.burst", 600) {
			// a long listing in one read
			b := make([]byte, 4100+tp.Draw("c13.burstlen", 22000))
			rr := rand.New(rand.NewSource(int64(tp.Draw("c13.burstseed", 1<<30))))
			for i := range b {
				const alpha = "abcdefghijklmnopqrstuvwxyz0123456789 -_./\r\n"
				b[i] = alpha[rr.Intn(len(alpha))]
			}
			ss = append(ss, vChunk{data: b, kind: "plain", round: r, sleep: think()})
		}
		trig := []byte(fmt.Sprintf("\x1b7\x07::TRZSZ:TRANSFER:%s:1.1.8:%s:%d\r\n", []string{"S", "R", "D"}[tp.Draw("c13.mode", 3)], id, 0))
		if tp.Bool("c13.trigprefix", 400) {
			trig = append(vNoise(tp, 1+plainN(30), false), trig...)
		}
		// the trigger is printed only after the client's earlier typing has gone through: bytes that reach
		// a relay which is already handshaking belong to the handshake line (junk in front of the ACT)
		ss = append(ss, vChunk{data: trig, kind: "trigger", round: r, sleep: think(), waitFor: "cplain"})
		// client side of round r
		cs = append(cs, vChunk{data: append(vNoise(tp, plainN(40), false), []byte(fmt.Sprintf("<C%d>", r))...), kind: "plain", round: r, sleep: think()})
		if tp.Bool("c13.typedahead", 300) {
			cs = append(cs, vChunk{data: vNoise(tp, 1+plainN(10), true), kind: "junk", round: r, waitFor: "trigger", sleep: think()})
		}
		actLine := mkAct(rd.outcome != "cancel", rd.outcome == "bad-act")
		// the ACT may share its chunk with bytes after it (straddling), never with bytes before it on
		// the same line except LF-free junk
		actChunk := append([]byte{}, actLine...)
		var after []byte
		if tp.Bool("c13.acttrail", 500) {
			after = vNoise(tp, 1+plainN(40), false)
			actChunk = append(actChunk, after...)
		}
		cs = append(cs, vChunk{data: actChunk, kind: "act", round: r, waitFor: "trigger", sleep: think()})
		switch rd.outcome {
		case "confirm", "bad-cfg":
			if tp.Bool("c13.sjunk", 300) {
				ss = append(ss, vChunk{data: vNoise(tp, 1+plainN(12), true), kind: "junk", round: r, waitFor: "act", sleep: think()})
			}
			cfgChunk := mkCfg(rd.outcome == "bad-cfg")
			if tp.Bool("c13.cfgtrail", 500) {
				cfgChunk = append(cfgChunk, vNoise(tp, 1+plainN(40), false)...)
			}
			wf := "act"
			if tp.Bool("c13.eagercfg", 150) {
				wf = "" // CFG already in flight while the relay still waits for the ACT
			}
			ss = append(ss, vChunk{data: cfgChunk, kind: "cfg", round: r, waitFor: wf, sleep: think()})
		case "cancel":
			ss = append(ss, vChunk{data: []byte("\x1b8\x1b[0JCancelled\r\n"), kind: "plain", round: r, waitFor: "act", sleep: think()})
		case "bad-act":
			ss = append(ss, vChunk{data: []byte("\x1b8\x1b[0Jserver saw a fail\r\n"), kind: "plain", round: r, waitFor: "", sleep: think()})
		}
		if rd.outcome == "confirm" {
			// protocol traffic both ways, then the transfer ends
			n := 1 + tp.Draw("c13.traffic", 5)
			for i := 0; i < n; i++ {
				cs = append(cs, vChunk{data: []byte(fmt.Sprintf("#DATA:%s\n", vEncode(vNoise(tp, 1+plainN(50), false)))), kind: "plain", round: r, waitFor: "cfg", sleep: think()})
				ss = append(ss, vChunk{data: []byte(fmt.Sprintf("#SUCC:%d/%d\n", 10+i, 100*i)), kind: "plain", round: r, sleep: think()})
			}
			switch rd.ender {
			case "exit":
				cs = append(cs, vChunk{data: []byte("#EXIT:" + vEncode([]byte("Saved 1 file")) + "\n"), kind: "exit", round: r, waitFor: "cfgdone", sleep: think()})
			case "fail-client":
				cs = append(cs, vChunk{data: []byte("#fail:" + vEncode([]byte("Stopped")) + "\n"), kind: "exit", round: r, waitFor: "cfgdone", sleep: think()})
			case "fail-server":
				// only after the handshake is over on the client side: a FAIL that overtakes the end of the
				// handshake is C14's subject (the relay then misses the end of the transfer)
				ss = append(ss, vChunk{data: []byte("#FAIL:" + vEncode([]byte("server error")) + "\n"), kind: "exit", round: r, waitFor: "cfgdone", sleep: think()})
			case "ctrlc":
				cs = append(cs, vChunk{data: []byte{0x03}, kind: "ctrlc", round: r, waitFor: "cfgdone", sleep: think()})
			}
			ss = append(ss, vChunk{data: []byte("\x1b8\x1b[0JSaved or stopped\r\n"), kind: "plain", round: r, waitFor: "exit", sleep: think()})
		}
		// between rounds both sides are idle for a moment, so that the next trigger finds standby
		cs = append(cs, vChunk{data: vNoise(tp, plainN(30), false), kind: "plain", round: r, sleep: 300 * time.Millisecond, waitFor: "settled"})
		ss = append(ss, vChunk{data: vNoise(tp, plainN(30), false), kind: "plain", round: r, sleep: 300 * time.Millisecond, waitFor: "settled"})
	}

	// event observation: what each party has seen so far on the relay's outputs
	seen := map[string]int{} // "trigger" (client saw #R trigger), "act" (server saw ACT or FAIL), "cfg" (client saw CFG/FAIL), "exit"
	var cGot, sGot []byte
	cOut.OnWrite = func(l *verifsim.Link, d []byte) {
		cGot = append(cGot, d...)
		seen["trigger"] = bytes.Count(cGot, []byte("::TRZSZ:TRANSFER:"))
		seen["cfg"] = bytes.Count(cGot, []byte("#CFG:")) + bytes.Count(cGot, []byte("#FAIL:")) + bytes.Count(cGot, []byte("Cancelled")) + bytes.Count(cGot, []byte("server saw"))
	}
	sIn.OnWrite = func(l *verifsim.Link, d []byte) {
		sGot = append(sGot, d...)
		seen["act"] = bytes.Count(sGot, []byte("#ACT:")) + bytes.Count(sGot, []byte("#XYZ:")) + bytes.Count(sGot, []byte("#FAIL:"))
		seen["cplain"] = len(vCMarker.FindAll(sGot, -1)) // the whole marker: its last byte may travel in a segment of its own
		seen["exit"] = bytes.Count(sGot, []byte("#EXIT:")) + bytes.Count(sGot, []byte("#fail:")) + bytes.Count(sGot, []byte{0x03})
	}

	relayProc := w.NewProc("relay")
	relayProc.Stdin = &verifsim.SimFile{R: cIn}
	relayProc.Stdout = &verifsim.SimFile{W: cOut}
	if tp.Bool("c13.tmuxcc", 300) {
		// the relay runs inside a tmux in control mode: nothing bypasses the pane, everything it forwards to the
		// client's side leaves through its standard output, in one order
		relayProc.Env["TMUX"] = "/tmp/tmux-0/default,1,0"
		h := (&xferWorld{}).tmuxExec("control", 120, "/dev/pts/3")
		w.Exec = func(req *verifsim.ExecRequest) (verifsim.ExecChild, error) { return h(req) }
		rc.res.Scenario["relay_in_tmux"] = "control"
	}
	var skip [4]int
	var relay *TrzszRelay
	w.Go("relay.main", relayProc, func() {
		relay = NewTrzszRelay(cIn, cOut, sIn, sOut, TrzszOptions{DetectTraceLog: traceLog})
	})
	if traceLog {
		// the trace log is switched on first (the relay answers with the name of the log file); what is compared
		// begins after that
		w.Go("tracelog.on", nil, func() {
			for k := 0; k < 2000 && relay == nil; k++ {
				verifsim.Sleep(time.Millisecond)
			}
			sOut.Write([]byte("<ENABLE_TRZSZ_TRACE_LOG>\r\n"))
		})
		w.Run(func() bool { return bytes.Contains(cGot, []byte("trace log")) || w.Now() > 3*time.Second })
		verifsim.Sleep(50 * time.Millisecond)
		rc.fault("trace-log-on")
		cGot, sGot = nil, nil
		for k := range seen {
			seen[k] = 0
		}
		skip = [4]int{cIn.NSentInt(), sOut.NSentInt(), sIn.NSentInt(), cOut.NSentInt()}
	}
	cDone, sDone := false, false
	runScript := func(name string, script []vChunk, out *verifsim.Link, done *bool) {
		w.Go(name, nil, func() {
			for _, c := range script {
				if c.waitFor != "" {
					need := c.round + 1
					for i := 0; i < 4000; i++ {
						if c.waitFor == "settled" {
							// everything written so far has been forwarded and the relay is back in standby
							if relay != nil && relay.relayStatus.Load() == kRelayStandBy {
								break
							}
						} else if c.waitFor == "exit" && plan[c.round].ender == "fail-server" {
							break
						} else if c.waitFor == "cfgdone" {
							if vOvertake && c.kind == "exit" && bytes.Contains(c.data, []byte("#FAIL:")) && bytes.Count(sGot, []byte("#ACT:")) > 0 {
								break // a server that fails right after sending its CFG
							}
							if vOvertake && bytes.Count(cGot, []byte("#CFG:")) > 0 {
								break // a client that ends the transfer right after receiving the CFG
							}
							if relay != nil && relay.relayStatus.Load() == kRelayTransferring && bytes.Count(cGot, []byte("#CFG:")) > c.round-vNoCfgBefore(plan, c.round) {
								break
							}
						} else if seen[c.waitFor] >= need-vSkipped(plan, c.round, c.waitFor) {
							break
						}
						verifsim.Sleep(5 * time.Millisecond)
					}
				}
				if c.sleep > 0 {
					verifsim.Sleep(c.sleep)
				}
				if len(c.data) > 0 {
					out.Write(c.data)
				}
			}
			*done = true
		})
	}
	runScript("client", cs, cIn, &cDone)
	runScript("server", ss, sOut, &sDone)
	var quietSince time.Duration
	var lastTotal int64
	w.Run(func() bool {
		if w.Now() > 10*time.Minute {
			return true
		}
		total := cOut.NSentTotal() + sIn.NSentTotal()
		if total != lastTotal || !cDone || !sDone {
			lastTotal = total
			quietSince = w.Now()
			if cDone && sDone {
				w.Go("tick", nil, func() { verifsim.Sleep(500 * time.Millisecond) })
			}
			return false
		}
		return w.Now()-quietSince >= 400*time.Millisecond
	})
	var outcomes []string
	for _, r := range plan {
		outcomes = append(outcomes, r.outcome+"/"+r.ender)
	}
	rc.res.ClassKey = fmt.Sprintf("seg%d %v", seg, outcomes)
	rc.res.Scenario["rounds"] = outcomes
	rc.res.Scenario["seg"] = seg
	if !cDone || !sDone {
		rc.violate("stuck", "C13:script-stuck", "a scripted party never finished (client done=%v server done=%v): the relay stopped forwarding; seen=%v relay status=%d", cDone, sDone, seen, relay.relayStatus.Load())
		return
	}
	if vOvertake {
		rc.res.ClassKey = "overtake " + rc.res.ClassKey
		if st := relay.relayStatus.Load(); st != kRelayStandBy {
			rc.violate("recovery", "C14:marker-overtakes-handshake:"+plan[0].ender, "the transfer was ended (%s) right after the handshake lines had gone through; all bytes were forwarded but the relay is left in state %d (2 = transferring): it scanned neither the buffered nor the flushed bytes for the end marker",
				plan[0].ender, st)
			return
		}
		rc.res.Nontrivial = true
		return
	}
	cInAll, _, _ := cIn.Snapshot()
	sOutAll, _, _ := sOut.Snapshot()
	sInAll, _, _ := sIn.Snapshot()
	cOutAll, _, _ := cOut.Snapshot()
	// (what went by while the trace log was being switched on is not part of the comparison)
	cInAll, sOutAll, sInAll, cOutAll = cInAll[vMin(skip[0], len(cInAll)):], sOutAll[vMin(skip[1], len(sOutAll)):], sInAll[vMin(skip[2], len(sInAll)):], cOutAll[vMin(skip[3], len(cOutAll)):]
	if msg := vConserve("server-bound", cInAll, sInAll, cs, "act", plan); msg != "" {
		rc.violate("conservation", "C13:server-bound", "%s", msg)
		rc.detail("client wrote  %q", cInAll)
		rc.detail("server got    %q", sInAll)
		return
	}
	if msg := vConserve("client-bound", sOutAll, cOutAll, ss, "cfg", plan); msg != "" {
		rc.violate("conservation", "C13:client-bound", "%s", msg)
		rc.detail("server wrote  %q", sOutAll)
		rc.detail("client got    %q", cOutAll)
		return
	}
	// schedule reach: distinct context switches that involve the relay's own code
	n := 0
	for k := range w.SwitchPairs {
		if strings.Contains(k, "relay.go") || strings.Contains(k, "buffer.go") {
			n++
		}
	}
	rc.res.Scenario["relay_switch_pairs"] = n
	rc.res.Nontrivial = true
}

// vNoCfgBefore: rounds before r that never produce a CFG line for the client.
func vNoCfgBefore(plan []vRound, r int) int {
	n := 0
	for i := 0; i < r; i++ {
		if plan[i].outcome != "confirm" {
			n++
		}
	}
	return n
}

// vSkipped: rounds before r in which the awaited event never happens by design.
func vSkipped(plan []vRound, r int, ev string) int {
	n := 0
	for i := 0; i < r; i++ {
		switch ev {
		case "exit":
			if plan[i].outcome != "confirm" || plan[i].ender == "fail-server" {
				n++
			}
		}
	}
	return n
}

// vConserve checks one direction against the reference model: the output equals the input with,
// per round, the handshake line (and LF-free junk in front of it on the same line that arrived
// after the relay had started buffering) replaced by the relay's rewritten line, and - when a
// handshake fails - relay-made FAIL lines inserted. Every other byte identical, in order, once.
func vConserve(dir string, in, out []byte, script []vChunk, hs string, plan []vRound) string {
	// relay-made FAIL lines are insertions: take them out first (scripts never produce a FAIL line
	// with the relay's wording)
	var inserted int
	out2 := out
	for _, m := range vFailRe.FindAll(out, -1) {
		if msg, err := vDecode(string(m[6 : len(m)-1])); err == nil && strings.HasPrefix(string(msg), "Relay ") {
			out2 = bytes.Replace(out2, m, nil, 1)
			inserted++
		}
	}
	o := out2
	pos := 0 // position in o
	for i := 0; i < len(script); i++ {
		c := script[i]
		switch c.kind {
		case "trigger":
			// the trigger chunk is forwarded with '#R' after the trigger digits and the id re-tagged (..00 -> ..20)
			want := vExpectTrigger(c.data)
			if !bytes.HasPrefix(o[pos:], want) {
				return fmt.Sprintf("%s: trigger of round %d not forwarded as expected at output offset %d: want %q, have %q", dir, c.round, pos, want, vClipB(o[pos:], len(want)+10))
			}
			pos += len(want)
		case "act", "cfg":
			if c.kind != hs {
				// the other side's handshake line does not appear in this script
				continue
			}
			nl := bytes.IndexByte(c.data, '\n')
			line, rest := c.data[:nl+1], c.data[nl+1:]
			bad := (hs == "act" && plan[c.round].outcome == "bad-act") || (hs == "cfg" && plan[c.round].outcome == "bad-cfg")
			if hs == "cfg" && plan[c.round].outcome == "bad-act" {
				bad = false
			}
			if bad {
				// the malformed line is consumed (a relay FAIL was inserted, already removed above)
			} else {
				typ := "#ACT:"
				if hs == "cfg" {
					typ = "#CFG:"
				}
				if !bytes.HasPrefix(o[pos:], []byte(typ)) {
					return fmt.Sprintf("%s: round %d: expected the relay's %s line at output offset %d, have %q (input line %q)", dir, c.round, typ, pos, vClipB(o[pos:], 60), vClipB(line, 60))
				}
				end := bytes.IndexByte(o[pos:], '\n')
				if end < 0 {
					return fmt.Sprintf("%s: round %d: rewritten %s line is not terminated", dir, c.round, typ)
				}
				if msg := vCompareHandshake(typ, line, o[pos:pos+end+1]); msg != "" {
					return fmt.Sprintf("%s: round %d: %s", dir, c.round, msg)
				}
				pos += end + 1
			}
			if !bytes.HasPrefix(o[pos:], rest) {
				return fmt.Sprintf("%s: round %d: bytes following the handshake line were lost, duplicated or reordered at output offset %d: want %q, have %q", dir, c.round, pos, vClipB(rest, 60), vClipB(o[pos:], 60))
			}
			pos += len(rest)
		case "junk":
			// LF-free bytes in front of the handshake line: a prefix of them may be forwarded, the rest is
			// consumed together with the line
			k := 0
			for k < len(c.data) && pos+k < len(o) && o[pos+k] == c.data[k] {
				k++
			}
			// only accept the longest prefix that still lets the remainder of the script match: the next
			// item starts with '#', junk never contains '#'
			pos += k
		default:
			if !bytes.HasPrefix(o[pos:], c.data) {
				return fmt.Sprintf("%s: round %d (%s): bytes lost, duplicated or reordered at output offset %d: want %q, have %q", dir, c.round, c.kind, pos, vClipB(c.data, 60), vClipB(o[pos:], 60))
			}
			pos += len(c.data)
		}
	}
	if pos != len(o) {
		return fmt.Sprintf("%s: %d extra bytes at the end of the output: %q", dir, len(o)-pos, vClipB(o[pos:], 80))
	}
	return ""
}

func vClipB(b []byte, n int) []byte {
	if len(b) > n {
		return b[:n]
	}
	return b
}

var vCMarker = regexp.MustCompile(`<C\d+>`)

var vTrigDigits = regexp.MustCompile(`::TRZSZ:TRANSFER:[SRD]:[0-9.:]+`)

func vExpectTrigger(chunk []byte) []byte {
	loc := vTrigDigits.FindIndex(chunk)
	if loc == nil {
		return chunk
	}
	out := append([]byte{}, chunk[:loc[1]]...)
	out = append(out, "#R"...)
	out = append(out, chunk[loc[1]:]...)
	// 13-digit ids ending in 00 are re-tagged 20 by a relay
	re := regexp.MustCompile(`(:\d{11})00(:\d+#R)`)
	return re.ReplaceAll(out, []byte("${1}20${2}"))
}

// vCompareHandshake compares an ACT/CFG line as sent with the line the relay forwarded, decoded,
// field by field: only the documented narrowing may differ.
func vCompareHandshake(typ string, in, out []byte) string {
	a, err1 := vDecodeJSON(strings.TrimSuffix(string(in[len(typ):]), "\n"))
	b, err2 := vDecodeJSON(strings.TrimSuffix(string(out[len(typ):]), "\n"))
	if err1 != nil || err2 != nil {
		return fmt.Sprintf("cannot decode %s lines: %v / %v", typ, err1, err2)
	}
	if typ == "#ACT:" {
		// no tunnel: binary is switched off; protocol clamped to what the relay understands
		a["binary"] = false
		if p, ok := a["protocol"].(float64); ok && p > 4 {
			a["protocol"] = float64(4)
		}
		for _, k := range []string{"lang", "version", "confirm", "newline", "protocol", "binary", "support_dir"} {
			if fmt.Sprint(a[k]) != fmt.Sprint(b[k]) {
				return fmt.Sprintf("ACT field %q: client sent %v, server got %v", k, a[k], b[k])
			}
		}
		return ""
	}
	// only the settings this version defines are compared
	for _, k := range []string{"quiet", "binary", "directory", "overwrite", "timeout", "newline", "protocol", "bufsize", "escape_chars", "compress", "fork"} {
		av, aok := a[k]
		bv := b[k]
		if !aok {
			continue
		}
		if fmt.Sprint(av) != fmt.Sprint(bv) {
			return fmt.Sprintf("CFG field %q: server sent %v, client got %v", k, av, bv)
		}
	}
	return ""
}
