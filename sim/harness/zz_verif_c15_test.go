package trzsz

import (
	"syscall"
	"bytes"
	"fmt"
	"io"
	"os"
	"path/filepath"
	"strings"
	"time"

	"github.com/trzsz/trzsz-go/internal/verifsim"
)

func init() {
	vScenarios["C15"] = vScenarioC15
}

func vOpenFDs() int {
	ents, err := os.ReadDir("/proc/self/fd")
	if err != nil {
		return -1
	}
	return len(ents)
}

func vHighestFD() int {
	ents, err := os.ReadDir("/proc/self/fd")
	if err != nil {
		return 64
	}
	hi := 0
	for _, e := range ents {
		var n int
		if _, err := fmt.Sscan(e.Name(), &n); err == nil && n > hi {
			hi = n
		}
	}
	return hi
}

// vGenTree builds a directory tree of about n entries under root.
func vGenTree(rc *runCtx, root string, n int, maxSize int) (files, dirs int) {
	tp := rc.tape
	os.MkdirAll(root, 0755)
	dirsList := []string{root}
	depth := map[string]int{root: 0}
	for i := 0; i < n; i++ {
		parent := dirsList[tp.Draw("parent", len(dirsList))]
		name := fmt.Sprintf("%s_%d", vNamePool[tp.Draw("tname", len(vNamePool))], i)
		p := filepath.Join(parent, name)
		if depth[parent] < 6 && tp.Bool("tdir", 250) {
			os.Mkdir(p, 0755)
			dirsList = append(dirsList, p)
			depth[p] = depth[parent] + 1
			dirs++
			continue
		}
		var size int
		switch tp.Pick("tsize", 2, 2, 4, 1) {
		case 0:
			size = 0
		case 1:
			size = 1
		case 2:
			size = 1 + tp.Draw("tsz", 3000)
		default:
			size = 32*1024 + tp.Draw("tszbig", 70000) // several read buffers
		}
		if size > maxSize {
			size = maxSize
		}
		data, _ := vGenContent(tp, size)
		vWriteFile(p, data)
		files++
	}
	return
}

func vScenarioC15(rc *runCtx) {
	switch rc.param("mode", "system") {
	case "component":
		vC15Component(rc)
	default:
		vC15System(rc)
	}
}

// system world: a directory sent as one archive stream (protocol 4, -d, no -y) between the real
// client filter and the real trz/tsz mains.
func vC15System(rc *runCtx) {
	tp := rc.tape
	cfg := vDrawConfig(tp, false)
	cfg.overwrite = false
	cfg.dirMode = true
	cfg.protocol = 0
	cfg.trigVersion = ""
	cfg.timeout = 20
	many := rc.param("many", "0") == "1"
	src := filepath.Join(rc.dir, "src")
	dst := filepath.Join(rc.dir, "dst")
	os.MkdirAll(dst, 0755)
	n := 3 + tp.Draw("entries", 40)
	if tp.Bool("entries.tiny", 150) {
		n = tp.Draw("entries.tinyn", 3) // a top directory with nothing, one entry or two below it
	}
	maxSize := 120000
	if many {
		n = 150 + tp.Draw("entries.many", 150)
		maxSize = 2000
		cfg.bufSize = ""
	}
	top := filepath.Join(src, "tree")
	files, dirs := vGenTree(rc, top, n, maxSize)
	paths := []string{top}
	if !many && tp.Bool("second.samename", 150) {
		// a second tree with the same name from another parent: two names at the destination, two intact trees
		t2 := filepath.Join(src, "elsewhere", "tree")
		f2, d2 := vGenTree(rc, t2, 2+tp.Draw("entries2s", 8), maxSize)
		files, dirs = files+f2, dirs+d2
		paths = append(paths, t2)
	} else if !many && tp.Bool("second", 300) {
		t2 := filepath.Join(src, "other")
		f2, d2 := vGenTree(rc, t2, 2+tp.Draw("entries2", 8), maxSize)
		files, dirs = files+f2, dirs+d2
		paths = append(paths, t2)
	}
	o := cfg.opts()
	o.srcPaths = paths
	o.dstDir = dst
	o.profile = vDrawProfile(tp, cfg.timeout)
	rc.res.ClassKey = fmt.Sprintf("sys many=%v %s n%d", many, cfg.key(), n/10)
	rc.res.Scenario["config"] = cfg.key()
	rc.res.Scenario["entries"] = files + dirs
	rc.res.Scenario["files"] = files
	rc.res.Scenario["dirs"] = dirs
	rc.res.Scenario["flags"] = strings.Join(o.flags, " ")
	fd0 := vOpenFDs()
	before := vSnapshot(dst)
	x := newXferWorld(rc, o)
	// a slow disk on the receiving side: creating an entry takes a few milliseconds, so that saving a chunk full
	// of small entries takes longer than anything else at the end of the transfer
	if tp.Bool("c15.slowcreate", 250) {
		per := time.Duration(5+tp.Draw("c15.slowcreate.ms", 60)) * time.Millisecond
		rc.w.Disk = &verifsim.DiskFaults{OnCreate: func(path string) {
			rc.fault("slow-entry-creation")
			verifsim.Sleep(per)
		}}
		defer func() { rc.w.Disk = nil }()
		rc.res.Scenario["slow_create"] = per.String()
	}
	// a file may vanish between the scan and its turn in the stream: an error, never a tree in which some path
	// holds another entry's bytes
	var vanished string
	orig := map[string][]byte{}
	if !many && tp.Bool("c15.vanish", 220) {
		var cands []string
		filepath.Walk(top, func(p string, info os.FileInfo, err error) error {
			if err == nil && info.Mode().IsRegular() {
				b, _ := os.ReadFile(p)
				rel, _ := filepath.Rel(src, p)
				orig[rel] = b
				if info.Size() > 0 {
					cands = append(cands, p)
				}
			}
			return nil
		})
		if len(cands) > 1 {
			victim := cands[1+tp.Draw("c15.vanishwhich", len(cands)-1)]
			l := x.downLast()
			if cfg.upload {
				l = x.up[0]
			}
			prevOn := l.OnWrite
			l.OnWrite = func(ll *verifsim.Link, d []byte) {
				if prevOn != nil {
					prevOn(ll, d)
				}
				if vanished == "" && bytes.HasPrefix(d, []byte("#NAME:")) {
					vanished = victim
					os.Remove(victim)
					rc.fault("source-file-vanished-after-scan")
				}
			}
		}
	}
	x.start()
	maxFD := fd0
	rc.w.Run(func() bool {
		if f := vOpenFDs(); f > maxFD {
			maxFD = f
		}
		return x.finished()
	})
	rep := x.report()
	rc.res.Scenario["fd_baseline"] = fd0
	rc.res.Scenario["fd_peak"] = maxFD
	rc.res.Scenario["fd_end"] = vOpenFDs()
	// the archive path must actually have been taken
	archived := false
	for _, m := range append(append([]vMsg{}, rep.clientMsgs...), rep.serverMsgs...) {
		if m.Typ == "NAME" {
			if js, err := vDecode(m.Payload); err == nil && bytes.Contains(js, []byte(`"archive":true`)) {
				archived = true
			}
		}
	}
	rc.res.Scenario["archived"] = archived
	if vanished != "" {
		// whatever the outcome: no path of the received tree holds bytes that are not the beginning of that path's
		// own source file
		rc.res.Scenario["vanished"] = vanished
		vCheckFidelity(rc, x, rep, before, false)
		if rc.res.Class != "ok" {
			return
		}
		filepath.Walk(dst, func(p string, info os.FileInfo, err error) error {
			if err != nil || !info.Mode().IsRegular() || rc.res.Class != "ok" {
				return nil
			}
			rel, _ := filepath.Rel(dst, p)
			want, ok := orig[rel]
			got, _ := os.ReadFile(p)
			if !ok {
				return nil // a fresh name (tree.0/...): not judged here
			}
			if !bytes.HasPrefix(want, got) {
				rc.violate("content", "C15:shifted-after-vanished-file", "after %q vanished between scan and read, %q at the destination holds %d bytes that are not the beginning of its own source (%d bytes): the entries behind the vanished one were shifted", vanished, rel, len(got), len(want))
			}
			return nil
		})
		rc.res.Nontrivial = rc.res.Class == "ok"
		return
	}
	vCheckFidelity(rc, x, rep, before, true)
	if rc.res.Class == "violation" && strings.Contains(rc.res.Msg, "too many open files") {
		rc.res.Kind = "fd-exhaustion"
		rc.res.Sig = "C15:too-many-open-files"
	}
	if rc.res.Class != "ok" {
		return
	}
	rc.res.Nontrivial = archived
	// descriptors in use must not grow with the entry count
	if grow := maxFD - fd0; grow > 40 && grow > (files+dirs)/3 {
		rc.violate("fd-growth", "C15:fd-growth", "open descriptors grew by %d (baseline %d, peak %d) while transferring %d entries", grow, fd0, maxFD, files+dirs)
	}
}

type vSegWriter struct {
	w    io.Writer
	rc   *runCtx
	cuts []int // explicit cut positions (absolute stream offsets), nil = tape-driven
	off  int
}

// component world: real archive reader -> real archive writer with independent read sizes and
// write segmentations; exhaustive single cut positions for short streams.
func vC15Component(rc *runCtx) {
	tp := rc.tape
	src := filepath.Join(rc.dir, "src", "tree")
	small := tp.Bool("small", 500)
	n := 2 + tp.Draw("centries", 25)
	maxSize := 70000
	if small {
		n = 1 + tp.Draw("centries.small", 4)
		maxSize = 12
	}
	files, dirs := vGenTree(rc, src, n, maxSize)
	if tp.Bool("deepchain", 120) {
		// a tree nested deeper than the number of descriptors the process may still open: more entries than
		// it may hold open files at once, all on one path
		os.RemoveAll(src)
		depth := 40 + tp.Draw("deepchain.depth", 60)
		p := src
		files, dirs = 0, 0
		// the levels carry different names, or all the same one (a path list that compresses very well), or
		// long names of one repeated character
		naming := tp.Draw("deepchain.naming", 3)
		if naming == 2 {
			depth = 2 + tp.Draw("deepchain.longdepth", 6)
		}
		for i := 0; i < depth; i++ {
			os.MkdirAll(p, 0755)
			vWriteFile(filepath.Join(p, fmt.Sprintf("f%d.txt", i)), []byte(fmt.Sprintf("level %d", i)))
			files++
			dirs++
			switch naming {
			case 0:
				p = filepath.Join(p, fmt.Sprintf("d%d", i))
			case 1:
				p = filepath.Join(p, "sub")
			default:
				p = filepath.Join(p, strings.Repeat(string("=-_x"[i%4]), 150+tp.Draw("deepchain.longname", 60)))
			}
		}
		os.MkdirAll(p, 0755)
		var lim syscall.Rlimit
		if syscall.Getrlimit(syscall.RLIMIT_NOFILE, &lim) == nil {
			old := lim
			lim.Cur = uint64(vHighestFD() + 1 + 20)
			if lim.Cur < old.Cur && syscall.Setrlimit(syscall.RLIMIT_NOFILE, &lim) == nil {
				defer syscall.Setrlimit(syscall.RLIMIT_NOFILE, &old)
				rc.fault("descriptor-limit-below-tree-depth")
				rc.res.Scenario["deep_chain"] = fmt.Sprintf("depth %d, descriptor limit %d", depth, lim.Cur)
			}
		}
	}
	shrink := tp.Pick("mutate", 6, 2, 1, 2) // 1 = shrink a file between scan and read, 2 = extend, 3 = shrink it while it is being read
	rc.res.Scenario["entries"] = files + dirs
	rc.res.Scenario["mutate"] = shrink
	rc.res.ClassKey = fmt.Sprintf("comp small=%v n%d mut%d", small, n, shrink)

	list, err := checkPathsReadable([]string{src}, true)
	if err != nil {
		rc.violate("scan", "C15:scan-error", "scanning a readable tree of %d entries failed: %v (%v)", files+dirs, err, rc.res.Scenario["deep_chain"])
		return
	}
	sender := newTransfer(io.Discard, nil, false, nil)
	sender.transferConfig.Protocol = kProtocolVersion4
	sender.transferConfig.Directory = true
	arch := sender.archiveSourceFiles(list)
	if len(arch) != 1 || len(arch[0].SubFiles) == 0 {
		// a tree with a single entry (just the directory) is sent as a plain directory entry
		rc.res.Scenario["note"] = "no sub files"
		return
	}
	// the receiver learns about the directory from the NAME message, as marshalled by the sender
	nameMsg, err := arch[0].marshalSourceFile()
	if err != nil {
		rc.res.Class = "error"
		rc.res.Msg = err.Error()
		return
	}
	// mutate one regular file after the scan
	var victim *sourceFile
	if shrink != 0 {
		var cands []*sourceFile
		for _, f := range arch[0].SubFiles {
			if !f.IsDir && f.Size > 0 {
				cands = append(cands, f)
			}
		}
		if len(cands) > 0 {
			victim = cands[tp.Draw("victim", len(cands))]
			if shrink == 1 {
				os.Truncate(victim.AbsPath, int64(tp.Draw("newlen", int(victim.Size))))
				rc.fault("source-shrunk")
			} else if shrink == 3 {
				// done inside the read loop below
			} else {
				f, _ := os.OpenFile(victim.AbsPath, os.O_APPEND|os.O_WRONLY, 0)
				f.Write([]byte("grown after the scan"))
				f.Close()
				rc.fault("source-grown")
			}
		}
	}
	shrunkMid := false
	produce := func() ([]byte, error, int64) {
		rd, err := sender.newArchiveReader(arch[0])
		if err != nil {
			return nil, err, 0
		}
		defer rd.Close()
		var stream []byte
		// where the victim's entry lies in the stream (headers are fixed by newArchiveReader)
		vStart, vEnd := -1, -1
		if victim != nil && shrink == 3 {
			off := 0
			for _, f := range arch[0].SubFiles {
				l := len(f.Header) + 1
				if !f.IsDir {
					l += int(f.Size)
				}
				if f == victim {
					vStart, vEnd = off, off+l
				}
				off += l
			}
		}
		shrunk := false
		for {
			if vStart >= 0 && !shrunk && len(stream) > vStart && len(stream) < vEnd && tp.Bool("midshrink", 500) {
				// the entry has been opened (its header has begun) and bytes are still owed
				os.Truncate(victim.AbsPath, int64(tp.Draw("midnewlen", int(victim.Size))))
				rc.fault("source-shrunk-while-read")
				shrunk = true
				shrunkMid = true
			}
			sz := 1 + tp.Draw("rdsize", 40)
			if tp.Bool("rdbig", 300) {
				sz = 1 + tp.Draw("rdsize.big", 70000)
			}
			buf := make([]byte, sz)
			n, err := rd.Read(buf)
			stream = append(stream, buf[:n]...)
			if err == io.EOF {
				return stream, nil, rd.getSize()
			}
			if err != nil {
				return stream, err, rd.getSize()
			}
			if len(stream) > 64<<20 {
				return stream, fmt.Errorf("runaway stream"), rd.getSize()
			}
		}
	}
	stream, perr, announced := produce()
	if victim != nil && shrink == 3 && !shrunkMid {
		shrink, victim = 0, nil // the moment never came: an unchanged tree
	}
	if victim != nil && (shrink == 1 || shrink == 3) {
		if perr == nil {
			rc.violate("shrink-unreported", "C15:shrink-unreported", "a source file shrank from %d bytes after the scan but the archive reader reported no error (stream %d bytes, announced %d)",
				victim.Size, len(stream), announced)
		} else {
			rc.res.Nontrivial = true
		}
		return
	}
	if perr != nil {
		rc.violate("produce-error", "C15:produce-error", "archive reader failed on a tree in which no file shrank: %v", perr)
		return
	}
	if victim != nil && shrink == 2 {
		// the stream carries the file as scanned: compare against that
		os.Truncate(victim.AbsPath, victim.Size)
	}
	if int64(len(stream)) != announced {
		rc.violate("size", "C15:size-mismatch", "announced archive size %d but produced %d bytes", announced, len(stream))
		return
	}
	consume := func(dst string, cuts []int) error {
		os.MkdirAll(dst, 0755)
		recv := newTransfer(io.Discard, nil, false, nil)
		recv.transferConfig.Protocol = kProtocolVersion4
		recv.transferConfig.Directory = true
		top, err := unmarshalSourceFile(nameMsg)
		if err != nil {
			return err
		}
		fw, _, err := recv.createDirOrFile(dst, top, true)
		if err != nil {
			return err
		}
		if fw == nil {
			// the NAME message did not announce an archive stream: nothing will read the one that is sent
			return nil
		}
		defer fw.Close()
		pos := 0
		ci := 0
		for pos < len(stream) {
			end := len(stream)
			if cuts != nil {
				if ci < len(cuts) {
					end = cuts[ci]
					ci++
				}
			} else {
				end = pos + 1 + tp.Draw("wrsize", 50)
				if tp.Bool("wrbig", 300) {
					end = pos + 1 + tp.Draw("wrsize.big", 50000)
				}
			}
			if end > len(stream) {
				end = len(stream)
			}
			if end <= pos {
				end = pos + 1
			}
			if err := writeAll(fw, stream[pos:end]); err != nil {
				return err
			}
			pos = end
		}
		return nil
	}
	check := func(dst string, what string) bool {
		if err := vCompareTree(src, dst, "tree"); err != nil {
			rc.violate("tree", "C15:tree-mismatch", "%s: %v", what, err)
			return false
		}
		return true
	}
	fd0 := vOpenFDs()
	dst := filepath.Join(rc.dir, "dst-rand")
	if err := consume(dst, nil); err != nil {
		rc.violate("consume-error", "C15:consume-error", "archive writer failed: %v", err)
		return
	}
	fd1 := vOpenFDs()
	rc.res.Scenario["fd_growth"] = fd1 - fd0
	if !check(dst, "random segmentation") {
		return
	}
	rc.res.Nontrivial = true
	if fd1-fd0 > 3 && fd1-fd0 >= files/2 {
		rc.violate("fd-growth", "C15:fd-leak-writer", "receiving %d file entries left %d descriptors open after the writer was closed", files, fd1-fd0)
		return
	}
	// exhaustive single cuts for short streams
	if len(stream) <= 200 {
		for c := 1; c < len(stream); c++ {
			d := filepath.Join(rc.dir, fmt.Sprintf("dst-cut-%d", c))
			if err := consume(d, []int{c}); err != nil {
				rc.violate("consume-error", "C15:consume-error", "cut at %d of %d: %v", c, len(stream), err)
				return
			}
			if !check(d, fmt.Sprintf("single cut at %d of %d", c, len(stream))) {
				return
			}
			os.RemoveAll(d)
		}
		rc.w.Probe("exhaustive-single-cuts")
		rc.res.Scenario["exhaustive_cuts"] = len(stream) - 1
	}
	if len(rc.w.Probes) > 0 {
		rc.res.Probes = rc.w.Probes
	}
}
