package trzsz

import (
	"bytes"
	"compress/zlib"
	"crypto/sha256"
	"encoding/base64"
	"encoding/json"
	"fmt"
	"io"
	"os"
	"path/filepath"
	"regexp"
	"sort"
	"strconv"
	"strings"
	"syscall"
)

// ---------------------------------------------------------------------------------------------
// independent codec for protocol strings (base64(zlib(x))): written here, not shared with the code
// under test, so that the monitors do not inherit its bugs.

func vEncode(s []byte) string {
	var b bytes.Buffer
	z := zlib.NewWriter(&b)
	z.Write(s)
	z.Close()
	return base64.StdEncoding.EncodeToString(b.Bytes())
}

func vDecode(s string) ([]byte, error) {
	raw, err := base64.StdEncoding.DecodeString(s)
	if err != nil {
		return nil, err
	}
	z, err := zlib.NewReader(bytes.NewReader(raw))
	if err != nil {
		return nil, err
	}
	defer z.Close()
	return io.ReadAll(z)
}

// ---------------------------------------------------------------------------------------------
// wire transcript parser (passive monitor)

type vMsg struct {
	Typ     string
	Payload string // without the newline marker
	Off     int    // offset of '#'
	End     int    // offset just past the terminator (and the binary block, if any)
	BinLen  int    // length of the sized block following a binary #DATA line, -1 if none
	Win     bool   // terminated by "!\n"
}

var vTypRe = regexp.MustCompile(`^#([A-Za-z]{3,4}):`)

// vParseWire extracts typed protocol lines from a recorded stream. binary tells whether sized
// blocks follow #DATA lines (binary mode as announced in the CFG).
func vParseWire(stream []byte, binary bool) []vMsg {
	var out []vMsg
	i := 0
	for i < len(stream) {
		j := bytes.IndexByte(stream[i:], '#')
		if j < 0 {
			break
		}
		i += j
		m := vTypRe.FindSubmatch(stream[i:minInt(len(stream), i+6)])
		if m == nil {
			i++
			continue
		}
		typ := string(m[1])
		nl := bytes.IndexByte(stream[i:], '\n')
		if nl < 0 {
			break
		}
		line := stream[i+len(m[0]) : i+nl]
		win := false
		if len(line) > 0 && line[len(line)-1] == '!' {
			win = true
			line = line[:len(line)-1]
		}
		msg := vMsg{Typ: typ, Payload: string(line), Off: i, End: i + nl + 1, BinLen: -1, Win: win}
		if typ == "DATA" && binary {
			if n, err := strconv.Atoi(string(line)); err == nil && n >= 0 && i+nl+1+n <= len(stream) {
				msg.BinLen = n
				msg.End = i + nl + 1 + n
			}
		}
		out = append(out, msg)
		i = msg.End
	}
	return out
}

func vFindMsg(msgs []vMsg, typ ...string) *vMsg {
	for i := range msgs {
		for _, t := range typ {
			if msgs[i].Typ == t {
				return &msgs[i]
			}
		}
	}
	return nil
}

func vLastMsg(msgs []vMsg, typ ...string) *vMsg {
	for i := len(msgs) - 1; i >= 0; i-- {
		for _, t := range typ {
			if msgs[i].Typ == t {
				return &msgs[i]
			}
		}
	}
	return nil
}

func vDecodeJSON(payload string) (map[string]any, error) {
	b, err := vDecode(payload)
	if err != nil {
		return nil, err
	}
	var m map[string]any
	if err := json.Unmarshal(b, &m); err != nil {
		return nil, err
	}
	return m, nil
}

// vSavedNames parses "Saved N file(s)... [to path]\r\n- a\r\n- b" (the user-visible report).
func vSavedNames(msg string) (names []string, ok bool) {
	idx := strings.Index(msg, "Saved ")
	if idx < 0 {
		return nil, false
	}
	msg = msg[idx:]
	lines := strings.Split(msg, "\r\n")
	fields := strings.Fields(lines[0])
	if len(fields) < 3 {
		return nil, false
	}
	n, err := strconv.Atoi(fields[1])
	if err != nil {
		return nil, false
	}
	for _, l := range lines[1:] {
		if strings.HasPrefix(l, "- ") {
			names = append(names, l[2:])
		} else {
			break
		}
	}
	if len(names) != n {
		return names, false
	}
	return names, true
}

// ---------------------------------------------------------------------------------------------
// file-system oracle

type vEnt struct {
	Dir   bool
	Size  int64
	Sum   [32]byte
	Ino   uint64
	Mtime int64
	Mode  os.FileMode
	Link  bool
}

type vSnap map[string]vEnt

func vSnapshot(root string) vSnap {
	s := vSnap{}
	filepath.Walk(root, func(p string, info os.FileInfo, err error) error {
		if err != nil || p == root {
			return nil
		}
		rel, _ := filepath.Rel(root, p)
		e := vEnt{Dir: info.IsDir(), Mode: info.Mode(), Mtime: info.ModTime().UnixNano()}
		if st, ok := info.Sys().(*syscall.Stat_t); ok {
			e.Ino = st.Ino
		}
		if info.Mode()&os.ModeSymlink != 0 {
			e.Link = true
		} else if !info.IsDir() {
			e.Size = info.Size()
			if b, err := os.ReadFile(p); err == nil {
				e.Sum = sha256.Sum256(b)
			}
		}
		s[rel] = e
		return nil
	})
	return s
}

// vSameContent compares type, size and hash (what C01 calls "bytes, names, structure").
func (e vEnt) sameContent(o vEnt) bool {
	return e.Dir == o.Dir && (e.Dir || (e.Size == o.Size && e.Sum == o.Sum))
}

// untouched = same inode, size, hash and mtime
func (e vEnt) untouched(o vEnt) bool {
	return e.Dir == o.Dir && e.Ino == o.Ino && e.Size == o.Size && e.Sum == o.Sum && e.Mtime == o.Mtime
}

func (s vSnap) keys() []string {
	ks := make([]string, 0, len(s))
	for k := range s {
		ks = append(ks, k)
	}
	sort.Strings(ks)
	return ks
}

// sub returns the entries under prefix (exclusive) with the prefix stripped.
func (s vSnap) sub(prefix string) vSnap {
	out := vSnap{}
	for k, v := range s {
		if strings.HasPrefix(k, prefix+string(os.PathSeparator)) {
			out[k[len(prefix)+1:]] = v
		}
	}
	return out
}

// vCompareTree checks that dst/<name> reproduces the source path src exactly.
func vCompareTree(src string, dstRoot string, name string) error {
	return vCompareTreeEx(src, dstRoot, name, nil)
}

// vCompareTreeEx: entries that already existed under the destination name before the transfer (an
// overwrite into an existing directory merges with it) are not "extra".
func vCompareTreeEx(src string, dstRoot string, name string, before vSnap) error {
	si, err := os.Stat(src)
	if err != nil {
		return fmt.Errorf("source vanished: %v", err)
	}
	dp := filepath.Join(dstRoot, name)
	di, err := os.Lstat(dp)
	if err != nil {
		return fmt.Errorf("destination %q missing: %v", name, err)
	}
	if si.IsDir() != di.IsDir() {
		return fmt.Errorf("destination %q has wrong type", name)
	}
	if !si.IsDir() {
		a, _ := os.ReadFile(src)
		b, _ := os.ReadFile(dp)
		if !bytes.Equal(a, b) {
			return fmt.Errorf("content of %q differs: src %d bytes, dst %d bytes, first diff at %d", name, len(a), len(b), vFirstDiff(a, b))
		}
		return nil
	}
	ss, ds := vSnapshot(src), vSnapshot(dp)
	for _, k := range ss.keys() {
		d, ok := ds[k]
		if !ok {
			return fmt.Errorf("entry %q missing under %q", k, name)
		}
		if !ss[k].sameContent(d) {
			return fmt.Errorf("entry %q under %q differs (src size %d, dst size %d)", k, name, ss[k].Size, d.Size)
		}
	}
	for _, k := range ds.keys() {
		if _, ok := ss[k]; !ok {
			if _, was := before[filepath.Join(name, k)]; was {
				continue
			}
			return fmt.Errorf("extra entry %q under %q", k, name)
		}
	}
	return nil
}

func vFirstDiff(a, b []byte) int {
	n := len(a)
	if len(b) < n {
		n = len(b)
	}
	for i := 0; i < n; i++ {
		if a[i] != b[i] {
			return i
		}
	}
	return n
}

func vTopLevel(s vSnap) []string {
	var out []string
	for k := range s {
		if !strings.Contains(k, string(os.PathSeparator)) {
			out = append(out, k)
		}
	}
	sort.Strings(out)
	return out
}

func vClip(s string, n int) string {
	if len(s) > n {
		return s[:n] + "..."
	}
	return s
}

func vQuote(b []byte, n int) string {
	if len(b) > n {
		return strconv.Quote(string(b[:n])) + fmt.Sprintf("...(+%d)", len(b)-n)
	}
	return strconv.Quote(string(b))
}
