package trzsz

import (
	"bytes"
	"encoding/json"
	"fmt"
	"time"

	"github.com/trzsz/trzsz-go/internal/verifsim"
)

// vC13Backpressure: the server stops reading its input (a full pipe towards it) at the moment the first
// transfer ends from both sides at once. The relay's input reader gets stuck handing on the client's end marker;
// meanwhile the server's own end marker takes the relay back to standby, the next trigger arrives and the
// server's CFG is parked for the second handshake. When the pipe drains, everything must still arrive, in
// order, exactly once, with the second ACT and CFG rewritten as in any other handshake.
func vC13Backpressure(rc *runCtx) {
	tp := rc.tape
	w := rc.w
	cIn, cOut := w.NewLink("c>r"), w.NewLink("r>c")
	sIn, sOut := w.NewLink("r>s"), w.NewLink("s>r")
	for _, l := range []*verifsim.Link{cIn, sOut} {
		l.Atomic = func(d []byte) bool { return true } // every scripted chunk is one read
		l.SealAtomic = true
	}
	relayProc := w.NewProc("relay")
	relayProc.Stdin = &verifsim.SimFile{R: cIn}
	relayProc.Stdout = &verifsim.SimFile{W: cOut}
	var relay *TrzszRelay
	w.Go("relay.main", relayProc, func() {
		relay = NewTrzszRelay(cIn, cOut, sIn, sOut, TrzszOptions{})
	})
	var cGot, sGot []byte
	cOut.OnWrite = func(l *verifsim.Link, d []byte) { cGot = append(cGot, d...) }
	sIn.OnWrite = func(l *verifsim.Link, d []byte) { sGot = append(sGot, d...) }
	waitUntil := func(cond func() bool) bool {
		for i := 0; i < 6000; i++ {
			if cond() {
				return true
			}
			verifsim.Sleep(time.Millisecond)
		}
		return false
	}
	mkAct := func(confirm bool) []byte {
		js, _ := json.Marshal(map[string]any{"lang": "go", "version": "1.1.8", "confirm": confirm, "newline": "\n", "protocol": 2 + tp.Draw("bp.proto", 7), "binary": true, "support_dir": true})
		return []byte("#ACT:" + vEncode(js) + "\n")
	}
	mkCfg := func() []byte {
		js, _ := json.Marshal(map[string]any{"lang": "go", "bufsize": 10485760, "timeout": 20, "protocol": 4, "quiet": tp.Bool("bp.q", 500), "overwrite": true})
		return []byte("#CFG:" + vEncode(js) + "\n")
	}
	ender := []string{"ctrlc", "fail", "exit"}[tp.Draw("bp.ender", 3)]
	second := []string{"confirm", "cancel"}[tp.Draw("bp.second", 2)]
	blockFor := time.Duration(600+tp.Draw("bp.block", 1500)) * time.Millisecond
	rc.res.ClassKey = fmt.Sprintf("backpressure ender=%s second=%s", ender, second)
	rc.res.Scenario["ender"], rc.res.Scenario["second"] = ender, second

	// what each side writes, in order, with what the other side must receive for it
	type item struct {
		data []byte
		kind string // plain | trigger | act | cfg
	}
	var cItems, sItems []item
	cWrite := func(kind string, d []byte) { cItems = append(cItems, item{d, kind}); cIn.Write(d) }
	sWrite := func(kind string, d []byte) { sItems = append(sItems, item{d, kind}); sOut.Write(d) }
	stuck, ok := false, true
	fail := func(what string) { ok = false; rc.res.Scenario["script_stuck_at"] = what }
	cDone, sDone := false, false
	trig := func(r int) []byte {
		return []byte(fmt.Sprintf("\x1b7\x07::TRZSZ:TRANSFER:%s:1.1.8:%013d:%d\r\n", []string{"S", "R", "D"}[tp.Draw("bp.mode", 3)], int64(4668480000000)+int64(r)*100, 0))
	}
	w.Go("client", nil, func() {
		defer func() { cDone = true }()
		if !waitUntil(func() bool { return relay != nil }) {
			return
		}
		cWrite("plain", append(vNoise(tp, tp.Draw("bp.c0", 30), false), []byte("<C0>")...))
		if !waitUntil(func() bool { return bytes.Count(cGot, []byte("::TRZSZ:TRANSFER:")) >= 1 }) {
			fail("client: first trigger")
			return
		}
		cWrite("act", mkAct(true))
		if !waitUntil(func() bool { return bytes.Count(cGot, []byte("#CFG:")) >= 1 && relay.relayStatus.Load() == kRelayTransferring }) {
			fail("client: first CFG")
			return
		}
		for i := 0; i < 1+tp.Draw("bp.traffic", 4); i++ {
			cWrite("plain", []byte(fmt.Sprintf("#DATA:%s\n", vEncode(vNoise(tp, 1+tp.Draw("bp.dlen", 40), false)))))
			verifsim.Sleep(2 * time.Millisecond)
		}
		// the server stops reading: flood until the relay's queue towards it is full ...
		sIn.WriteBlockUntil = w.Now() + blockFor
		rc.fault("server-input-pipe-full")
		for i := 0; i < 60 && len(relay.osStdinChan) < cap(relay.osStdinChan); i++ {
			cWrite("plain", []byte(fmt.Sprintf("#DATA:%s\n", vEncode(vNoise(tp, 1+tp.Draw("bp.dlen", 40), false)))))
			verifsim.Sleep(2 * time.Millisecond)
		}
		if len(relay.osStdinChan) < cap(relay.osStdinChan) {
			fail("client: queue never filled")
			return
		}
		// ... then the end marker, on which the relay's input reader gets stuck
		switch ender {
		case "ctrlc":
			cWrite("plain", []byte{0x03})
		case "fail":
			cWrite("plain", []byte("#fail:"+vEncode([]byte("Stopped"))+"\n"))
		default:
			cWrite("plain", []byte("#EXIT:"+vEncode([]byte("Saved 1 file"))+"\n"))
		}
		if !waitUntil(func() bool { return cIn.Pending() == 0 }) {
			fail("client: end marker not read")
			return
		}
		verifsim.Sleep(3 * time.Millisecond)
		stuck = true
		// the next transfer: the ACT answers the second trigger and queues up behind the end marker
		if !waitUntil(func() bool { return bytes.Count(cGot, []byte("::TRZSZ:TRANSFER:")) >= 2 }) {
			fail("client: second trigger")
			return
		}
		cWrite("act", mkAct(second == "confirm"))
		if second == "confirm" {
			if !waitUntil(func() bool { return bytes.Count(cGot, []byte("#CFG:")) >= 2 }) {
				fail("client: second CFG")
				return
			}
			cWrite("plain", []byte(fmt.Sprintf("#DATA:%s\n", vEncode(vNoise(tp, 10, false)))))
			cWrite("plain", []byte("#EXIT:"+vEncode([]byte("Saved 1 file"))+"\n"))
		}
		waitUntil(func() bool { return relay.relayStatus.Load() == kRelayStandBy })
		verifsim.Sleep(50 * time.Millisecond)
		cWrite("plain", vNoise(tp, 1+tp.Draw("bp.ctail", 20), false))
	})
	w.Go("server", nil, func() {
		defer func() { sDone = true }()
		if !waitUntil(func() bool { return bytes.Contains(sGot, []byte("<C0>")) }) {
			fail("server: client's first bytes")
			return
		}
		sWrite("plain", vNoise(tp, tp.Draw("bp.s0", 30), false))
		sWrite("trigger", trig(0))
		if !waitUntil(func() bool { return bytes.Count(sGot, []byte("#ACT:")) >= 1 }) {
			fail("server: first ACT")
			return
		}
		sWrite("cfg", mkCfg())
		for i := 0; i < 3; i++ {
			verifsim.Sleep(2 * time.Millisecond)
			sWrite("plain", []byte(fmt.Sprintf("#SUCC:%d/%d\n", 10+i, 100*i)))
		}
		if !waitUntil(func() bool { return stuck }) {
			fail("server: relay reader never stuck")
			return
		}
		// the server ends the first transfer on its own account, prints, and starts the next one
		sWrite("plain", []byte("#FAIL:"+vEncode([]byte("server error"))+"\n"))
		sWrite("plain", []byte("\x1b8\x1b[0Jserver gave up\r\n"))
		if !waitUntil(func() bool { return relay.relayStatus.Load() == kRelayStandBy }) {
			fail("server: relay not back in standby after the server's FAIL")
			return
		}
		verifsim.Sleep(time.Duration(20+tp.Draw("bp.gap", 200)) * time.Millisecond)
		sWrite("plain", vNoise(tp, 1+tp.Draw("bp.s1", 30), false))
		sWrite("trigger", trig(1))
		if second == "confirm" {
			// the CFG is already on its way while the relay still waits for the ACT: it is parked
			verifsim.Sleep(time.Duration(tp.Draw("bp.cfggap", 20)) * time.Millisecond)
			cfg := mkCfg()
			if tp.Bool("bp.cfgtrail", 500) {
				cfg = append(cfg, vNoise(tp, 1+tp.Draw("bp.trail", 30), false)...)
			}
			sWrite("cfg", cfg)
			if !waitUntil(func() bool { return bytes.Count(sGot, []byte("#EXIT:")) >= map[string]int{"exit": 2}[ender]+map[bool]int{true: 0, false: 1}[ender == "exit"] }) {
				fail("server: second EXIT")
				return
			}
			sWrite("plain", []byte("\x1b8\x1b[0JSaved 1 file\r\n"))
		} else {
			if !waitUntil(func() bool { return bytes.Count(sGot, []byte("#ACT:")) >= 2 }) {
				fail("server: second ACT")
				return
			}
			sWrite("plain", []byte("\x1b8\x1b[0JCancelled\r\n"))
		}
		sWrite("plain", vNoise(tp, 1+tp.Draw("bp.stail", 20), false))
	})
	var lastTotal int64
	var quietSince time.Duration
	w.Run(func() bool {
		if w.Now() > 5*time.Minute {
			return true
		}
		total := cOut.NSentTotal() + sIn.NSentTotal()
		if total != lastTotal || !cDone || !sDone {
			lastTotal, quietSince = total, w.Now()
			if cDone && sDone {
				w.Go("tick", nil, func() { verifsim.Sleep(500 * time.Millisecond) })
			}
			return false
		}
		return w.Now()-quietSince >= 400*time.Millisecond
	})
	if !cDone || !sDone || !ok {
		rc.violate("stuck", "C13:backpressure-stuck", "a scripted party could not go on (%v): the relay stopped forwarding; relay status %d; client got %s; server got %s",
			rc.res.Scenario["script_stuck_at"], relay.relayStatus.Load(), vQuote(vTail(cGot, vMax0(len(cGot)-160)), 170), vQuote(vTail(sGot, vMax0(len(sGot)-160)), 170))
		return
	}
	// reference: every chunk once, in order; triggers marked as relayed, handshake lines rewritten
	check := func(dir string, items []item, got []byte, hsType string) string {
		// relay-made FAIL lines are insertions
		for _, m := range vFailRe.FindAll(got, -1) {
			if msg, err := vDecode(string(m[6 : len(m)-1])); err == nil && bytes.HasPrefix(msg, []byte("Relay ")) {
				return fmt.Sprintf("%s: the relay reported %q", dir, msg)
			}
		}
		pos := 0
		for i, it := range items {
			switch it.kind {
			case "trigger":
				want := vExpectTrigger(it.data)
				if !bytes.HasPrefix(got[pos:], want) {
					return fmt.Sprintf("%s: item %d: trigger not forwarded as expected at offset %d: want %q, have %q", dir, i, pos, want, vClipB(got[pos:], len(want)+10))
				}
				pos += len(want)
			case "act", "cfg":
				typ := map[string]string{"act": "#ACT:", "cfg": "#CFG:"}[it.kind]
				nl := bytes.IndexByte(it.data, '\n')
				line, rest := it.data[:nl+1], it.data[nl+1:]
				if !bytes.HasPrefix(got[pos:], []byte(typ)) {
					return fmt.Sprintf("%s: item %d: expected the relay's %s line at offset %d, have %q", dir, i, typ, pos, vClipB(got[pos:], 70))
				}
				end := bytes.IndexByte(got[pos:], '\n')
				if end < 0 {
					return fmt.Sprintf("%s: item %d: %s line not terminated", dir, i, typ)
				}
				if msg := vCompareHandshake(typ, line, got[pos:pos+end+1]); msg != "" {
					return fmt.Sprintf("%s: item %d: %s", dir, i, msg)
				}
				pos += end + 1
				if !bytes.HasPrefix(got[pos:], rest) {
					return fmt.Sprintf("%s: item %d: bytes after the %s line lost or reordered: want %q, have %q", dir, i, typ, vClipB(rest, 40), vClipB(got[pos:], 60))
				}
				pos += len(rest)
			default:
				if !bytes.HasPrefix(got[pos:], it.data) {
					return fmt.Sprintf("%s: item %d (%s): bytes lost, duplicated or reordered at offset %d: want %q, have %q", dir, i, vQuote(it.data, 30), pos, vClipB(it.data, 60), vClipB(got[pos:], 60))
				}
				pos += len(it.data)
			}
		}
		if pos != len(got) {
			return fmt.Sprintf("%s: %d extra bytes at the end: %q", dir, len(got)-pos, vClipB(got[pos:], 80))
		}
		return ""
	}
	if msg := check("server-bound", cItems, sGot, "act"); msg != "" {
		rc.violate("conservation", "C13:backpressure:server-bound", "%s", msg)
		return
	}
	if msg := check("client-bound", sItems, cGot, "cfg"); msg != "" {
		rc.violate("conservation", "C13:backpressure:client-bound", "%s", msg)
		return
	}
	if st := relay.relayStatus.Load(); st != kRelayStandBy {
		rc.violate("recovery", "C13:backpressure:not-standby", "everything was delivered but the relay is left in state %d", st)
		return
	}
	rc.res.Nontrivial = true
}
