package trzsz

import (
	"github.com/mattn/go-runewidth"
	"regexp"
	"bytes"
	"encoding/json"
	"fmt"
	"net"
	"os"
	"path/filepath"
	"strings"
	"time"

	"github.com/google/shlex"
	"github.com/trzsz/trzsz-go/internal/verifsim"
)

func shlexSplit(s string) ([]string, error) { return shlex.Split(s) }

// xferOpts describes one client ⇄ (relays) ⇄ trz/tsz conversation.
type xferOpts struct {
	upload     bool
	flags      []string // trz/tsz flags
	srcPaths   []string
	dstDir     string
	relays     int
	relayTmux  []string // per relay: "" (not in tmux) | "normal" | "control"
	tunnel     bool     // client installs a tunnel connector
	noListen   bool     // server cannot listen (tunnel impossible)
	relayConnDead bool  // the relays' tunnel connectors towards the next machine return nothing
	cliWindows bool     // client affected by Windows
	srvWindows bool     // server behaves like a Windows server (id suffix 10, '!\n' framing)
	srvTmux    string   // server inside tmux: "" | "normal" | "control"
	actEdit    func(act map[string]any) // protocol-aware rewrite of the client's ACT (older/odd clients)
	trigEdit   func(b []byte) []byte    // rewrite of the trigger as it leaves the server
	srvPaneCols   int   // width of the server's tmux pane (0: 77)
	relayPaneCols []int // widths of the relays' tmux panes, nearest to the client first (nil: 60, 67, ...; then they do not count for the progress oracle)
	othersNames map[string]bool // top-level names another transfer into the same destination reported (not this one's extras)
	trigSplitLF bool // the last byte of the trigger line (its line feed) arrives in a read of its own
	srvCCFrame bool                     // the server's pane belongs to a tmux in control mode: its output reaches the next hop as %output lines, and what is typed towards it lands in tmux's command channel (recorded in ccTyped), not in its stdin
	cols       int32
	relDst     bool // an upload's destination is given relative to the working directory
	uploadVia  int // 0 OneTimeUpload, 1 UploadFiles (drag queue + scripted shell), 2 typed paths
	// no default download path: the file dialog opens (a stand-in dialog program on PATH decides what the user did)
	noDefaultPath bool
	// how long a relay's connector takes to reach the next hop
	relayConnectDelay time.Duration
	filterOpts TrzszOptions
	simCap     time.Duration
	profile    transportProfile
	noRecord   bool
	kHash      int64 // prefix-hash block size knob (0 = leave)
	serverMain func() int // replaces TrzMain/TszMain (custom in-package server)
	tunnelFast bool       // tunnel links stay well inside the 1 s grace period (needed when -f depends on the tunnel)
}

type transportProfile struct {
	segPm, coalPm, latPm int
	latMax               time.Duration
	bytesPerMs           int
	lonePm               int  // per mille of cut writes in which a byte from the middle arrives alone
	loneByte             int  // 1 + the byte value to prefer for that (0: any)
	pipeCap              int  // with serial: the writer blocks while more than this many bytes wait in front of the line
	maxCuts              int  // most pieces a write is cut into, minus one (0: the link's default, 3)
	serial               bool // bytesPerMs is the capacity of the line (writes queue up), not a per-write delay
}

func vDrawProfile(tp *verifsim.Tape, timeoutSec int) transportProfile {
	p := transportProfile{}
	p.segPm = []int{0, 80, 350, 1000}[tp.Pick("prof.seg", 3, 3, 3, 1)]
	p.coalPm = []int{0, 150, 600}[tp.Pick("prof.coal", 4, 3, 1)]
	switch tp.Pick("prof.lat", 5, 3, 2, 1) {
	case 1:
		p.latPm, p.latMax = 300, 5*time.Millisecond
	case 2:
		p.latPm, p.latMax = 500, 400*time.Millisecond
	case 3:
		p.latPm, p.latMax = 200, 3*time.Second
	}
	if timeoutSec > 0 && p.latMax > time.Duration(timeoutSec)*time.Second/4 {
		p.latMax = time.Duration(timeoutSec) * time.Second / 4
	}
	switch tp.Pick("prof.bw", 6, 2, 1) {
	case 1:
		p.bytesPerMs = 2000 // 2 MB/s
	case 2:
		p.bytesPerMs = 40 // 40 KB/s: chunk times cross the 500 ms / 2 s thresholds
	}
	return p
}

// capForHops keeps the worst round trip (every hop delayed both ways) below the timeout: with relays a line
// crosses relays+1 links each way.
func (p *transportProfile) capForHops(timeoutSec, relays int) {
	if timeoutSec > 0 && relays > 0 {
		if lim := time.Duration(timeoutSec) * time.Second / time.Duration(4*(relays+1)); p.latMax > lim {
			p.latMax = lim
		}
	}
}

func (p transportProfile) apply(l *verifsim.Link) {
	l.SegPm, l.CoalescePm, l.LatPm, l.LatMax, l.BytesPerMs = p.segPm, p.coalPm, p.latPm, p.latMax, p.bytesPerMs
	l.Serial = p.serial
	l.PipeCap = p.pipeCap
	l.LonePm = p.lonePm
	l.LoneByte = p.loneByte - 1
	if p.maxCuts > 0 {
		l.MaxCuts = p.maxCuts
	}
}

func (p transportProfile) String() string {
	return fmt.Sprintf("seg%d/coal%d/lat%d@%v/bw%d", p.segPm, p.coalPm, p.latPm, p.latMax, p.bytesPerMs)
}

type xferWorld struct {
	onTunnel   []func(hop int, c *verifsim.Conn) // called for every tunnel connection a connector dials
	ccKeys     bool // keys typed while a transfer runs arrive as tmux control-mode commands
	ccKeysSent int
	termMark int // terminal offset at which the current transfer began
	ccTyped  []byte // srvCCFrame: what was typed into tmux's command channel
	chunkHooks []func(l *verifsim.Link, d []byte) // vOnChunk hooks, also applied to tunnel connections dialled later
	rc *runCtx
	w  *verifsim.World
	o  *xferOpts

	kbd, term *verifsim.Link
	// hop links: up[i] carries client→server bytes of hop i, down[i] server→client.
	up, down []*verifsim.Link
	tmuxTty  []*verifsim.Link // per relay / server: bypass stream when inside tmux normal mode

	client *verifsim.Proc
	relayP []*verifsim.Proc
	server *verifsim.Proc
	filter *TrzszFilter
	relay  []*TrzszRelay

	uploadRes    <-chan error
	uploadErr    error
	uploadDone   bool
	uploadErrImm error
	clientReady  bool
	tunnelConns  []*verifsim.Conn
	startAt      time.Duration
	endAt        time.Duration
	execs        map[*verifsim.Proc]verifsim.ExecHandler
	markUp       int
	markUpLast   int // offset in the last up link at which the current transfer began
	markDown     int
	transferNo   int
	clientDoneAt time.Duration // first quiescent point at which the client was seen idle again
	serverDoneAt time.Duration
	sawClientBusy bool
	lastMoved     int64
	lastMoveAt    time.Duration
	capHit        bool
	noServer        bool               // start the client (and relays) only
	shellCmd        string
	firers          []*vFirer
	clientConnector func(int) net.Conn // overrides the client's tunnel connector (C17)
	paused        bool // a pause was requested at some point (keep-alive lines are legitimate)
}

// slowNotHung: the simulated-time cap was reached while bytes were still flowing.
func (x *xferWorld) slowNotHung() bool {
	return x.capHit && x.w.Now()-x.lastMoveAt < 5*time.Minute
}

func newXferWorld(rc *runCtx, o *xferOpts) *xferWorld {
	x := &xferWorld{rc: rc, w: rc.w, o: o}
	w := rc.w
	if o.cols == 0 {
		o.cols = 80
	}
	if o.simCap == 0 {
		o.simCap = 30 * time.Minute
	}
	mk := func(name string) *verifsim.Link {
		l := w.NewLink(name)
		o.profile.apply(l)
		l.Record = !o.noRecord
		// trigger detection works per read by design (C06/C19): a trigger line is never cut. With relays
		// in the path the same holds for the end-of-transfer markers a relay scans each read for.
		l.Atomic = func(data []byte) bool {
			if bytes.Contains(data, []byte("::TRZSZ:TRANSFER:")) {
				return true
			}
			// zmodem headers (and what may veto them in the same read) are detected per read as well
			if o.filterOpts.EnableZmodem && (bytes.Contains(data, []byte("**\x18B0")) || bytes.Contains(data, []byte("**\x18B1"))) {
				return true
			}
			return o.relays > 0 && len(data) < 4096 && (bytes.Contains(data, []byte("#EXIT:")) || bytes.Contains(data, []byte("#FAIL:")) || bytes.Contains(data, []byte("#fail:")))
		}
		l.SealAtomic = o.relays > 0 || o.filterOpts.EnableZmodem
		return l
	}
	x.kbd = w.NewLink("kbd")
	// a terminal that talks tmux control mode to the client (iTerm2 with tmux -CC) delivers keys as commands:
	// "send -t %1 0x3\r" for Ctrl-C, "send -t %1 0x1b 0x5b 0x42\r" for an arrow key
	x.kbd.Mangle = func(l *verifsim.Link, d []byte) []byte {
		if !x.ccKeys || len(d) == 0 || len(d) > 8 || x.filter == nil || !x.filter.IsTransferringFiles() {
			return d
		}
		var b bytes.Buffer
		b.WriteString("send -t %1")
		for _, c := range d {
			fmt.Fprintf(&b, " 0x%x", c)
		}
		b.WriteString("\r")
		x.ccKeysSent++
		return b.Bytes()
	}
	x.term = w.NewLink("term")
	x.term.Record = !o.noRecord
	for i := 0; i <= o.relays; i++ {
		x.up = append(x.up, mk(fmt.Sprintf("up%d", i)))
		x.down = append(x.down, mk(fmt.Sprintf("down%d", i)))
	}
	x.client = w.NewProc("client")
	if o.cliWindows {
		t := true
		x.client.Windows = &t
	}
	x.server = w.NewProc("server")
	return x
}

func (x *xferWorld) srvPane() int {
	if x.o.srvPaneCols > 0 {
		return x.o.srvPaneCols
	}
	return 77
}

// upLast/downLast are the links attached to the server process.
func (x *xferWorld) upLast() *verifsim.Link   { return x.up[len(x.up)-1] }
func (x *xferWorld) downLast() *verifsim.Link { return x.down[len(x.down)-1] }

// connector returns the tunnel connector of the party at position hop (0 = client, i = relay i):
// it reaches ports on the next machine towards the server only.
func (x *xferWorld) connector(proc string, hop int) func(int) net.Conn {
	return func(port int) net.Conn {
		if hop > 0 && x.o.relayConnDead {
			return nil
		}
		if hop > 0 && x.o.relayConnectDelay > 0 {
			// a relay whose own connection towards the next hop takes its time
			verifsim.Sleep(x.o.relayConnectDelay)
		}
		next := x.server
		if hop < len(x.relayP) {
			next = x.relayP[hop]
		}
		c := x.w.DialHost(next, port, fmt.Sprintf("tun.%s.%d", proc, port), func(l *verifsim.Link) {
			x.o.profile.apply(l)
			if x.o.tunnelFast && l.LatMax > 100*time.Millisecond {
				l.LatMax = 100 * time.Millisecond
			}
			l.Record = !x.o.noRecord
			// the greeting is a single tiny TCP segment; with relays, end-of-transfer markers are scanned per read
			l.Atomic = func(data []byte) bool {
				if bytes.Contains(data, []byte("::TRZSZ::")) {
					return true
				}
				return x.o.relays > 0 && len(data) < 4096 && (bytes.Contains(data, []byte("#EXIT:")) || bytes.Contains(data, []byte("#FAIL:")) || bytes.Contains(data, []byte("#fail:")))
			}
			l.SealAtomic = x.o.relays > 0
		})
		if c == nil {
			return nil
		}
		x.tunnelConns = append(x.tunnelConns, c)
		for _, f := range x.onTunnel {
			f(hop, c)
		}
		for _, l := range []*verifsim.Link{c.Wr, c.R} {
			prev := l.OnWrite
			l.OnWrite = func(ll *verifsim.Link, d []byte) {
				if prev != nil {
					prev(ll, d)
				}
				for _, h := range x.chunkHooks {
					h(ll, d)
				}
			}
		}
		return c
	}
}

func (x *xferWorld) tmuxExec(mode string, width int, tty string) verifsim.ExecHandler {
	return func(req *verifsim.ExecRequest) (verifsim.ExecChild, error) {
		out := ""
		switch req.Name {
		case "tmux":
			joined := strings.Join(req.Args, " ")
			switch {
			case strings.Contains(joined, "client_tty"):
				ctl := "0"
				if mode == "control" {
					ctl = "1"
				}
				out = fmt.Sprintf("%s:%s:%d\n", tty, ctl, width)
			case strings.Contains(joined, "status-interval}"):
				out = "15\n"
			}
		case "stty":
			out = fmt.Sprintf("24 %d\n", width)
		default:
			return nil, fmt.Errorf("exec: %q: executable file not found in $PATH", req.Name)
		}
		if req.Stdout != nil && out != "" {
			req.Stdout.Write([]byte(out))
		}
		return vDoneChild{0}, nil
	}
}

type vDoneChild struct{ code int }

func (c vDoneChild) Wait() int { return c.code }
func (c vDoneChild) Kill()     {}

// start launches every party. Must be called from the bubble's root goroutine.
func (x *xferWorld) start() {
	w, o := x.w, x.o
	x.startAt = w.Now()
	execs := map[*verifsim.Proc]verifsim.ExecHandler{}
	w.Exec = func(req *verifsim.ExecRequest) (verifsim.ExecChild, error) {
		if h := execs[req.Proc]; h != nil {
			return h(req)
		}
		return nil, fmt.Errorf("exec: %q: executable file not found in $PATH", req.Name)
	}
	if o.kHash > 0 {
		vSetHashStep(o.kHash)
	}

	// relays (each in its own process), nearest to the client first
	for i := 0; i < o.relays; i++ {
		i := i
		p := w.NewProc(fmt.Sprintf("relay%d", i+1))
		x.relayP = append(x.relayP, p)
		mode := ""
		if i < len(o.relayTmux) {
			mode = o.relayTmux[i]
		}
		cliOut := verifsim.File(&verifsim.SimFile{W: x.down[i]})
		if mode != "" {
			p.Env["TMUX"] = "/tmp/tmux-0/default,1,0"
			tty := fmt.Sprintf("/dev/pts/%d", 10+i)
			pw := 60 + 7*i
			if i < len(o.relayPaneCols) {
				pw = o.relayPaneCols[i]
			}
			execs[p] = x.tmuxExec(mode, pw, tty)
			if mode == "normal" {
				// the relay writes protocol traffic straight to the tmux client's tty
				w.Ttys[tty] = &verifsim.SimFile{W: x.down[i]}
			}
		}
		if mode == "normal" {
			// what the relay writes to its stdout is pane output: it reaches the user's terminal through tmux, a
			// little later than what the relay writes straight to the tmux client's tty
			pane := w.NewLink(fmt.Sprintf("pane%d", i+1))
			cliOut = verifsim.File(&verifsim.SimFile{W: pane})
			dst := x.down[i]
			lag := time.Duration(2+i) * 3 * time.Millisecond
			w.Go(fmt.Sprintf("tmux.pane%d", i+1), nil, func() {
				buf := make([]byte, 32*1024)
				for {
					n, err := pane.Read(buf)
					if n > 0 {
						verifsim.Sleep(lag)
						dst.Write(append([]byte(nil), buf[:n]...))
					}
					if err != nil {
						return
					}
				}
			})
		}
		p.Stdout = cliOut
		p.Stdin = &verifsim.SimFile{R: x.up[i]}
		w.Go("relay.main", p, func() {
			r := NewTrzszRelay(x.up[i], x.down[i], x.up[i+1], x.down[i+1], TrzszOptions{})
			if o.tunnel {
				r.SetTunnelConnector(x.connector(p.Name, i+1))
			}
			x.relay = append(x.relay, r)
		})
	}

	x.execs = execs
	x.prepareServer()
	// client
	w.Go("client.main", x.client, func() {
		fo := o.filterOpts
		fo.TerminalColumns = o.cols
		if o.cols < 0 {
			fo.TerminalColumns = 0 // the width was never told
		}
		x.filter = NewTrzszFilter(x.kbd, x.term, x.up[0], x.down[0], fo)
		if o.tunnel {
			if x.clientConnector != nil {
				x.filter.SetTunnelConnector(x.clientConnector)
			} else {
				x.filter.SetTunnelConnector(x.connector("client", 0))
			}
		}
		if o.upload {
			switch o.uploadVia {
			case 0:
				ch, err := x.filter.OneTimeUpload(o.srcPaths)
				if err != nil {
					x.uploadErrImm = err
					x.uploadDone = true
				} else {
					x.uploadRes = ch
					x.w.Go("client.waitres", x.client, func() {
						verifsim.Yield("waitres")
						err, ok := <-ch
						if ok {
							x.uploadErr = err
						}
						x.uploadDone = true
					})
				}
			}
		} else {
			if o.noDefaultPath {
				x.filter.SetDefaultDownloadPath("")
			} else {
				x.filter.SetDefaultDownloadPath(o.dstDir)
			}
		}
		// every relay on the path is up (and has its connector) before the user types the command
		for i := 0; i < 1000 && len(x.relay) < o.relays; i++ {
			verifsim.Sleep(time.Millisecond)
		}
		x.clientReady = true
		if x.noServer {
			return
		}
		if o.upload && o.uploadVia != 0 {
			// uploads through the drag queue: the filter interrupts the shell and types the upload
			// command itself; a scripted shell echoes it and starts the real trz
			cmd := "trz"
			for _, f := range o.flags {
				if f != "-d" && f != "-r" {
					cmd += " " + f
				}
			}
			cmd += " " + vShellQuote(o.dstDir)
			x.filter.SetDragFileUploadCommand(cmd)
			x.w.Go("shell", nil, func() { x.shell() })
			if o.uploadVia == 1 {
				if err := x.filter.UploadFiles(o.srcPaths); err != nil {
					x.uploadErrImm = err
				}
			} else {
				// the user drops the files on the terminal: the terminal types their paths in one go
				var b []byte
				for _, p := range o.srcPaths {
					b = append(b, vShellQuote(p)...)
					b = append(b, ' ')
				}
				verifsim.Sleep(1100 * time.Millisecond) // drag detection arms itself shortly after start
				x.kbd.Write(b)
			}
			return
		}
		// the "user" now types the command: the server process starts
		x.launchServer()
	})
}

func vShellQuote(p string) string {
	if strings.ContainsAny(p, " '\t") {
		return "'" + p + "'"
	}
	return p
}

// shell is the scripted remote shell used for drag uploads: it reacts to Ctrl-C with a fresh
// prompt, echoes the command line it is sent and then runs trz with those arguments.
func (x *xferWorld) shell() {
	buf := make([]byte, 4096)
	var line []byte
	for {
		n, err := x.upLast().Read(buf)
		if err != nil {
			return
		}
		for _, c := range buf[:n] {
			switch c {
			case 0x03:
				line = nil
				x.downLast().Write([]byte("^C\r\n$ "))
			case '\r', '\n':
				cmdline := string(line)
				x.downLast().Write([]byte(cmdline + "\r\n"))
				fields, ferr := shlexSplit(cmdline)
				if ferr == nil && len(fields) > 0 && fields[0] == "trz" {
					x.server.Args = fields
					x.shellCmd = cmdline
					x.launchServer()
					return
				}
				line = nil
				x.downLast().Write([]byte("$ "))
			default:
				line = append(line, c)
			}
		}
	}
}

// prepareServer configures the server process of the next transfer (x.server must be fresh).
func (x *xferWorld) prepareServer() {
	w, o := x.w, x.o
	execs := x.execs
	sp := x.server
	prog := "tsz"
	if o.upload {
		prog = "trz"
	}
	args := append([]string{prog}, o.flags...)
	if o.upload {
		dstArg := o.dstDir
		if o.relDst {
			// the destination as the user would type it: relative to where the command is started
			if cwd, err := os.Getwd(); err == nil {
				if rel, err := filepath.Rel(cwd, o.dstDir); err == nil {
					dstArg = rel
				}
			}
		}
		args = append(args, dstArg)
	} else {
		args = append(args, o.srcPaths...)
	}
	sp.Args = args
	sp.Stdin = &verifsim.SimFile{R: x.upLast()}
	sp.Stdout = &verifsim.SimFile{W: x.downLast()}
	sp.Stderr = &verifsim.SimFile{W: x.downLast()}
	sp.Env["TRZSZ-FORK-BACKGROUND"] = "TRUE" // the re-exec itself is outside the simulation: run as the child
	if o.noListen {
		sp.Env["VERIF_NO_LISTEN"] = "1"
	}
	if o.srvWindows {
		t := true
		sp.Windows = &t
	}
	if o.srvTmux != "" {
		sp.Env["TMUX"] = "/tmp/tmux-0/default,2,0"
		tty := "/dev/pts/9"
		execs[sp] = x.tmuxExec(o.srvTmux, x.srvPane(), tty)
		if o.srvTmux == "normal" {
			w.Ttys[tty] = &verifsim.SimFile{W: x.downLast()}
		}
	}
	if o.trigSplitLF {
		// the transport delivers the trigger line's final line feed in a read of its own
		split := false
		l := x.downLast()
		prevM := l.Mangle
		l.Mangle = func(ll *verifsim.Link, data []byte) []byte {
			if prevM != nil {
				data = prevM(ll, data)
			}
			if split || !bytes.Contains(data, []byte("::TRZSZ:TRANSFER:")) || !bytes.HasSuffix(data, []byte("\r\n")) {
				return data
			}
			split = true
			x.rc.fault("trigger-line-feed-in-its-own-read")
			x.w.Go("trigger.lf", nil, func() { ll.Write([]byte("\n")) })
			return data[:len(data)-1]
		}
	}
	if o.trigEdit != nil || o.srvWindows {
		done := false
		x.downLast().Mangle = func(l *verifsim.Link, data []byte) []byte {
			if done || !bytes.Contains(data, []byte("::TRZSZ:TRANSFER:")) {
				return data
			}
			done = true
			if o.srvWindows {
				data = vRetagID(data, "10")
			}
			if o.trigEdit != nil {
				data = o.trigEdit(data)
			}
			return data
		}
	}
	if o.actEdit != nil {
		// (chained: a scenario may have put a rewriter of its own on this link already)
		prevAct, am := x.up[0].Mangle, vActMangler(o.actEdit)
		x.up[0].Mangle = func(l *verifsim.Link, data []byte) []byte {
			if prevAct != nil {
				data = prevAct(l, data)
			}
			if data == nil {
				return nil
			}
			return am(l, data)
		}
	}
	if o.srvCCFrame {
		prev := x.downLast().Mangle
		x.downLast().Mangle = func(l *verifsim.Link, data []byte) []byte {
			if prev != nil {
				data = prev(l, data)
			}
			if len(data) == 0 {
				return data
			}
			return []byte("%output %1 " + vTmuxEscape(data) + "\r\n")
		}
		x.upLast().Mangle = func(l *verifsim.Link, data []byte) []byte {
			x.ccTyped = append(x.ccTyped, data...)
			return nil
		}
	}
}

// vTmuxEscape renders pane output the way tmux control mode does: bytes below space and the backslash in octal.
func vTmuxEscape(data []byte) string {
	var b strings.Builder
	for _, c := range data {
		if c < ' ' || c == '\\' {
			fmt.Fprintf(&b, "\\%03o", c)
		} else {
			b.WriteByte(c)
		}
	}
	return b.String()
}

func (x *xferWorld) launchServer() {
	o := x.o
	x.markUp, x.markDown = x.up[0].NSentInt(), x.downLast().NSentInt()
	x.markUpLast = x.upLast().NSentInt()
	x.termMark = x.term.NSentInt()
	x.server.Start("server.main", func() int {
		if o.serverMain != nil {
			return o.serverMain()
		}
		if o.upload {
			return TrzMain()
		}
		return TszMain()
	})
}

// nextTransfer starts another transfer through the same filter and relays (root goroutine).
func (x *xferWorld) nextTransfer(o *xferOpts) {
	o.relays, o.relayTmux, o.tunnel, o.profile, o.cols = x.o.relays, x.o.relayTmux, x.o.tunnel, x.o.profile, x.o.cols
	o.relayPaneCols = x.o.relayPaneCols
	if o.srvPaneCols == 0 {
		o.srvPaneCols = x.o.srvPaneCols
	}
	o.simCap = x.o.simCap
	x.o = o
	x.transferNo++
	x.server = x.w.NewProc(fmt.Sprintf("server%d", x.transferNo+1))
	x.endAt = 0
	x.uploadDone, x.uploadErr, x.uploadErrImm = false, nil, nil
	x.startAt = x.w.Now()
	// whatever was still on its way to the previous server process went to the shell
	x.upLast().Drain()
	x.prepareServer()
	x.w.Go("client.next", x.client, func() {
		if o.upload {
			ch, err := x.filter.OneTimeUpload(o.srcPaths)
			if err != nil {
				x.uploadErrImm = err
				x.uploadDone = true
			} else {
				x.w.Go("client.waitres", x.client, func() {
					verifsim.Yield("waitres")
					err, ok := <-ch
					if ok {
						x.uploadErr = err
					}
					x.uploadDone = true
				})
			}
		} else {
			if o.noDefaultPath {
				x.filter.SetDefaultDownloadPath("")
			} else {
				x.filter.SetDefaultDownloadPath(o.dstDir)
			}
		}
		x.launchServer()
	})
}


// finished is the quiescent-point predicate of a plain transfer.
func (x *xferWorld) finished() bool {
	var moved int64
	for _, l := range x.up {
		moved += l.NSentTotal()
	}
	for _, l := range x.down {
		moved += l.NSentTotal()
	}
	for _, c := range x.tunnelConns {
		moved += c.Wr.NSentTotal() + c.R.NSentTotal()
	}
	if moved != x.lastMoved {
		x.lastMoved = moved
		x.lastMoveAt = x.w.Now()
	}
	if x.w.Now()-x.startAt > x.o.simCap {
		x.capHit = true
		return true
	}
	if !x.clientReady || x.filter == nil {
		return false
	}
	x.observe()
	if !x.server.Exited {
		return false
	}
	if x.filter.IsTransferringFiles() {
		return false
	}
	if x.o.upload && x.o.uploadVia == 0 && !x.uploadDone {
		return false
	}
	if x.endAt == 0 {
		x.endAt = x.w.Now()
		x.w.Go("settle", nil, func() { verifsim.Sleep(200 * time.Millisecond) })
	}
	// small settle period so trailing output is written
	return x.w.Now()-x.endAt >= 200*time.Millisecond
}

// observe records when each role was first seen finished (called at quiescent points).
func (x *xferWorld) observe() {
	if x.filter == nil {
		return
	}
	busy := x.filter.IsTransferringFiles()
	if busy {
		x.sawClientBusy = true
		x.clientDoneAt = 0
	} else if x.sawClientBusy && x.clientDoneAt == 0 {
		x.clientDoneAt = x.w.Now()
	}
	if x.server.Exited && x.serverDoneAt == 0 {
		x.serverDoneAt = x.server.ExitAt
	}
}

// settle keeps the scheduler running for d of simulated time (harness timers drive the clock).
func (x *xferWorld) settle(d time.Duration) {
	until := x.w.Now() + d
	x.w.Go("settle", nil, func() { verifsim.Sleep(d) })
	x.w.Run(func() bool { return x.w.Now() >= until })
}

// ---------------------------------------------------------------------------------------------
// reports

type xferReport struct {
	clientMsgs   []vMsg // typed lines the client wrote (in-band + tunnel)
	serverMsgs   []vMsg
	cfg          map[string]any
	act          map[string]any
	binary       bool
	clientOK     bool
	clientNames  []string
	clientFail   string
	clientSaid   bool
	serverOK     bool
	serverNames  []string
	serverText   string
	serverExit   int
	serverExited bool
	serverFail   string
	tunnelUsed   bool
}

// vStripVT removes CSI sequences (ESC [ ... final) and two-byte escapes (ESC 7, ESC 8, ...).
func vStripVT(b []byte) []byte {
	var out []byte
	for i := 0; i < len(b); i++ {
		c := b[i]
		if c != 0x1b {
			out = append(out, c)
			continue
		}
		if i+1 < len(b) && b[i+1] == '[' {
			i += 2
			for i < len(b) && !(b[i] >= 0x40 && b[i] <= 0x7e) {
				i++
			}
			continue
		}
		i++
	}
	return out
}

func (x *xferWorld) report() *xferReport {
	r := &xferReport{}
	// what the server process wrote / the client received: last hop down link as written
	down, _, _ := x.downLast().Snapshot()
	up, _, _ := x.up[0].Snapshot()
	if x.markDown <= len(down) {
		down = down[x.markDown:]
	}
	if x.markUp <= len(up) {
		up = up[x.markUp:]
	}
	var tunUp, tunDown []byte
	for _, c := range x.tunnelConns {
		a, _, _ := c.Wr.Snapshot()
		tunUp = append(tunUp, a...)
		if c.Peer != nil {
			b, _, _ := c.Peer.Wr.Snapshot()
			tunDown = append(tunDown, b...)
		}
	}
	// CFG decides binary mode
	pre := vParseWire(append(append([]byte{}, down...), tunDown...), false)
	if m := vFindMsg(pre, "CFG"); m != nil {
		if cfg, err := vDecodeJSON(m.Payload); err == nil {
			r.cfg = cfg
			if b, ok := cfg["binary"].(bool); ok {
				r.binary = b
			}
		}
	}
	r.serverMsgs = append(vParseWire(down, r.binary), vParseWire(tunDown, r.binary)...)
	r.clientMsgs = append(vParseWire(up, r.binary), vParseWire(tunUp, r.binary)...)
	r.tunnelUsed = len(vParseWire(tunUp, r.binary)) > 1
	if m := vFindMsg(r.clientMsgs, "ACT"); m != nil {
		if act, err := vDecodeJSON(m.Payload); err == nil {
			r.act = act
		}
	}
	if m := vLastMsg(r.clientMsgs, "EXIT"); m != nil {
		if b, err := vDecode(m.Payload); err == nil {
			r.clientSaid = true
			if names, ok := vSavedNames(string(b)); ok {
				r.clientOK = true
				r.clientNames = names
			}
		}
	}
	if m := vLastMsg(r.clientMsgs, "fail", "FAIL"); m != nil {
		if b, err := vDecode(m.Payload); err == nil {
			r.clientFail = string(b)
		} else {
			r.clientFail = "undecodable: " + vClip(m.Payload, 60)
		}
		r.clientSaid = true
	}
	if m := vLastMsg(r.serverMsgs, "fail", "FAIL"); m != nil {
		if b, err := vDecode(m.Payload); err == nil {
			r.serverFail = string(b)
		} else {
			r.serverFail = "undecodable"
		}
	}
	r.serverExited = x.server.Exited
	r.serverExit = x.server.ExitCode
	// the server's final message is printed after the terminal reset sequence
	// (file content sent in binary mode may itself contain the words looked for: only what follows the last reset
	// sequence is the server's own message)
	reset := []byte("\x1b8\x1b[0J")
	if i := bytes.LastIndex(down, reset); i >= 0 && !bytes.Contains(down[i:], []byte("Switch to transfer in background")) {
		// (a transfer handed to the background that was over within half a second prints its message first, between
		// a cursor save and restore, and the notice about the background, which alone follows a reset, second: such
		// a transfer runs over the tunnel, no file content is in this stream, and all of it is looked at)
		down = down[i:]
	}
	text := string(vStripVT(down))
	if i := strings.LastIndex(text, "Saved "); i >= 0 && !strings.Contains(text[i:], "#") {
		tail := text[i:]
		if names, ok := vSavedNames(strings.TrimRight(tail, "\r\n")); ok {
			r.serverOK = true
			r.serverNames = names
		}
		r.serverText = vClip(tail, 300)
	} else {
		if len(text) > 300 {
			text = text[len(text)-300:]
		}
		r.serverText = text
	}
	return r
}

// ---------------------------------------------------------------------------------------------
// protocol-aware link rewriters

// vActMangler rewrites the JSON of the first #ACT line passing through a link.
func vActMangler(edit func(map[string]any)) func(l *verifsim.Link, data []byte) []byte {
	done := false
	return func(l *verifsim.Link, data []byte) []byte {
		if done {
			return data
		}
		i := bytes.Index(data, []byte("#ACT:"))
		if i < 0 {
			return data
		}
		j := bytes.IndexByte(data[i:], '\n')
		if j < 0 {
			return data
		}
		done = true
		payload := data[i+5 : i+j]
		win := false
		if len(payload) > 0 && payload[len(payload)-1] == '!' {
			win = true
			payload = payload[:len(payload)-1]
		}
		m, err := vDecodeJSON(string(payload))
		if err != nil {
			return data
		}
		edit(m)
		js, _ := json.Marshal(m)
		var out []byte
		out = append(out, data[:i+5]...)
		out = append(out, vEncode(js)...)
		if win {
			out = append(out, '!')
		}
		out = append(out, data[i+j:]...)
		return out
	}
}

// vRetagID replaces the last two digits of the 13-digit unique id in a trigger.
func vRetagID(data []byte, suffix string) []byte {
	i := bytes.Index(data, []byte("::TRZSZ:TRANSFER:"))
	if i < 0 {
		return data
	}
	rest := data[i+len("::TRZSZ:TRANSFER:"):]
	// mode ':' version ':' id
	parts := bytes.SplitN(rest, []byte(":"), 4)
	if len(parts) < 3 || len(parts[2]) < 13 {
		return data
	}
	off := i + len("::TRZSZ:TRANSFER:") + len(parts[0]) + 1 + len(parts[1]) + 1
	out := append([]byte{}, data...)
	copy(out[off+11:off+13], suffix)
	return out
}

// vSetHashStep sets the prefix-hash block size knob (a var only in the rewritten copy).
func vSetHashStep(n int64) { kPrefixHashStep = n }

// ---------------------------------------------------------------------------------------------
// source tree generation

type treeSpec struct {
	paths   []string // absolute top-level paths created
	files   int
	dirs    int
	bytes   int64
	classes []string
}

var vNamePool = []string{"a.txt", "data.bin", "x", "读我.md", "sp ace.txt", "-dash", "ünï.dat", "b.tar.gz", "emoji😀.txt", "UPPER", "dot.", "q'uote", "z_9", "..data", "...", ".hid", "..2026_09_28"}
var vSizePool = []int{0, 1, 511, 512, 513, 1023, 1024, 10239, 10240, 10241, 131071, 131072, 131073, 393215, 393217}

func vGenContent(tp *verifsim.Tape, size int) ([]byte, string) {
	switch tp.Pick("content", 3, 3, 3, 2, 1) {
	case 4:
		// a log of a trzsz session: the texts every party of the path looks for in what goes by
		pat := []byte("12:00:01 tosvr #ACT:eJyq #CFG:eJw= #EXIT:eJwLTixLTVEw #FAIL:eJzz #fail:eJwL #SUCC:42 #DATA:= \x1b7\x07::TRZSZ:TRANSFER:S:1.1.8:4668480000020:12345\r\nSaved 1 file\r\n**\x18B00000000000000\r\x8a\x11 Ctrl-C \x03 !\n")
		b := make([]byte, size)
		k := tp.Draw("markeroff", len(pat))
		for i := range b {
			b[i] = pat[(i+k)%len(pat)]
		}
		return b, "marker-text"
	case 0:
		return make([]byte, size), "zeros"
	case 1:
		b := make([]byte, size)
		pat := []byte("The quick brown fox jumps over the lazy dog.\n")
		k := tp.Draw("textoff", len(pat))
		for i := range b {
			b[i] = pat[(i+k)%len(pat)]
		}
		return b, "text"
	case 2:
		return tp.Bytes("rnd", size), "random"
	default:
		// rich in bytes the escape tables protect
		b := tp.Bytes("prot", size)
		hot := []byte{0x7e, 0xee, 0x02, 0x0d, 0x10, 0x11, 0x13, 0x18, 0x1b, 0x1d, 0x8d, 0x90, 0x91, 0x93, 0x9d, '\n', '#', '!'}
		for i := range b {
			if b[i]&3 != 0 {
				b[i] = hot[int(b[i]>>2)%len(hot)]
			}
		}
		return b, "protected"
	}
}

// vTryWrite creates a file unless something is in the way (pre-state generation).
func vTryWrite(path string, data []byte) {
	if _, err := os.Lstat(path); err == nil {
		return
	}
	_ = os.WriteFile(path, data, 0644)
}

func vWriteFile(path string, data []byte) {
	if err := os.WriteFile(path, data, 0644); err != nil {
		panic(err)
	}
}

// vGenSources creates 1..maxTop top-level sources under root. allowDirs adds directories.
func vGenSources(rc *runCtx, root string, maxTop int, allowDirs bool, maxSize int, dupNames bool) *treeSpec {
	tp := rc.tape
	spec := &treeSpec{}
	os.MkdirAll(root, 0755)
	ntop := 1 + tp.Pick("ntop", 5, 3, 2, 1)
	if ntop > maxTop {
		ntop = maxTop
	}
	used := map[string]bool{}
	cls := map[string]bool{}
	sizeOf := func() int {
		for {
			s := vSizePool[tp.Draw("size", len(vSizePool))]
			if s <= maxSize {
				return s
			}
		}
	}
	var fill func(dir string, depth int)
	fill = func(dir string, depth int) {
		n := tp.Draw("fan", 5)
		for i := 0; i < n; i++ {
			name := vNamePool[tp.Draw("name", len(vNamePool))]
			p := filepath.Join(dir, name)
			if _, err := os.Lstat(p); err == nil {
				continue
			}
			if depth < 3 && tp.Bool("subdir", 250) {
				os.Mkdir(p, 0755)
				spec.dirs++
				fill(p, depth+1)
			} else {
				data, c := vGenContent(tp, sizeOf())
				cls[c] = true
				vWriteFile(p, data)
				spec.files++
				spec.bytes += int64(len(data))
			}
		}
	}
	for i := 0; i < ntop; i++ {
		parent := root
		name := vNamePool[tp.Draw("topname", len(vNamePool))]
		if used[name] {
			if !dupNames {
				name = fmt.Sprintf("%s%d", name, i)
			} else {
				// same base name under a different parent
				parent = filepath.Join(root, fmt.Sprintf("p%d", i))
				os.MkdirAll(parent, 0755)
			}
		}
		used[name] = true
		p := filepath.Join(parent, name)
		if allowDirs && tp.Bool("topdir", 400) {
			os.Mkdir(p, 0755)
			spec.dirs++
			fill(p, 1)
		} else {
			data, c := vGenContent(tp, sizeOf())
			cls[c] = true
			vWriteFile(p, data)
			spec.files++
			spec.bytes += int64(len(data))
		}
		spec.paths = append(spec.paths, p)
	}
	for c := range cls {
		spec.classes = append(spec.classes, c)
	}
	return spec
}

var vProgressPct = regexp.MustCompile(`\d+%`)

// a progress line ends with the percentage, optionally followed by up to three " | field"s
var vProgressTail = regexp.MustCompile(`\d+%( \| [^|]{1,24}){0,3}$`)

// progressOverflow looks at every progress line the client wrote to the terminal from offset `from` on: none
// may be wider than the narrowest width in force - the server's tmux pane when it sits in one (77 columns unless the scenario
// says otherwise), the panes of relays inside tmux when the scenario gave them widths, else the terminal (cols). Returns "" when fine.
func (x *xferWorld) progressOverflow(from int, cols int32) string {
	limit := int(cols)
	if x.o.srvTmux != "" && limit > x.srvPane() {
		limit = x.srvPane()
	}
	for i, pw := range x.o.relayPaneCols {
		if i < len(x.o.relayTmux) && x.o.relayTmux[i] != "" && limit > pw {
			limit = pw
		}
	}
	if limit < 5 {
		return ""
	}
	term, _, evs := x.term.Snapshot()
	lastPct := map[string]int{}
	single := false
	if len(x.o.srcPaths) == 1 {
		if st, err := os.Stat(x.o.srcPaths[0]); err == nil && st.Mode().IsRegular() {
			single = true
		}
	}
	var fileSizes []int64
	for _, sp := range x.o.srcPaths {
		if st, err := os.Stat(sp); err == nil && st.Mode().IsRegular() {
			fileSizes = append(fileSizes, st.Size())
		} else {
			fileSizes = nil // a directory (or a source that is gone): the order of the files is not the order given
			break
		}
	}
	for _, e := range evs {
		if e.Off < from || e.Off+e.N > len(term) {
			continue
		}
		chunk := string(term[e.Off : e.Off+e.N])
		if !vProgressPct.MatchString(chunk) {
			continue
		}
		text := chunk
		if strings.HasPrefix(text, "%output ") || strings.HasPrefix(text, "%extended-output ") {
			// tmux control-mode framing: prefix, octal escapes, CR LF
			if i := strings.Index(text, " : "); strings.HasPrefix(text, "%extended") && i >= 0 {
				text = text[i+3:]
			} else if f := strings.SplitN(text, " ", 3); len(f) == 3 {
				text = f[2]
			}
			text = vTmuxUnescape(strings.TrimSuffix(text, "\r\n"))
		} else if !strings.HasPrefix(text, "\r") && !strings.HasPrefix(text, "\x1b[") && !strings.Contains(text, "[\x1b[36m") {
			// not a progress redraw (some other output that happens to contain a percentage); the very first
			// drawing of a bar has no cursor movement in front, it is known by its bar
			continue
		}
		if strings.ContainsAny(text, "\n") {
			continue // a progress redraw is one line
		}
		vis := vCtlSeq.ReplaceAllString(text, "")
		if !vProgressTail.MatchString(vis) {
			continue
		}
		if w := runewidth.StringWidth(vis); w > limit {
			return fmt.Sprintf("a progress line of display width %d was written while the narrowest width on the path was %d (terminal %d, server tmux %q): %q", w, limit, cols, x.o.srvTmux, vClip(vis, 140))
		}
		// the percentage never decreases within a file: judged where the line says which file it is about (its
		// "(k/n)" index), or when the transfer carries one single file
		loc := vProgressTail.FindStringIndex(vis)
		pct := -1
		fmt.Sscanf(vis[loc[0]:], "%d%%", &pct)
		key := ""
		if m := vProgressIdx.FindStringSubmatch(strings.TrimLeft(vis, "\r")); m != nil {
			key = m[1]
		} else if single {
			key = "single"
		}
		x.rc.res.Scenario["progress_lines"] = vInt(x.rc.res.Scenario["progress_lines"]) + 1
		if key != "" && pct >= 0 {
			x.rc.res.Scenario["progress_lines_keyed"] = vInt(x.rc.res.Scenario["progress_lines_keyed"]) + 1
			if seq, _ := x.rc.res.Scenario["progress_seq"].(string); len(seq) < 400 {
				x.rc.res.Scenario["progress_seq"] = seq + fmt.Sprintf(" %s:%d@%d", key, pct, e.T.Milliseconds())
			}
			if last, ok := lastPct[key]; ok && pct < last {
				return fmt.Sprintf("the percentage went down from %d%% to %d%% within one file (%s): %q", last, pct, key, vClip(vis, 140))
			}
			lastPct[key] = pct
		}
		if pct > 100 {
			return fmt.Sprintf("a percentage above 100 was shown: %q", vClip(vis, 140))
		}
		// the amount shown as transferred is never more than the file holds (judged where the line says which
		// file it is about and the sources are plain files, sent in the order given)
		tampered := false // (what an acknowledgement says after a byte fault or a hostile rewrite is not the sender's doing)
		for k := range x.rc.res.Faults {
			if strings.HasPrefix(k, "byte-") || strings.HasPrefix(k, "hostile-") {
				tampered = true
			}
		}
		if m := vProgressAmount.FindStringSubmatch(vis[loc[0]:]); m != nil && key != "" && !tampered {
			idx := 0
			if key != "single" {
				fmt.Sscanf(key, "(%d/", &idx)
				idx--
			}
			if idx >= 0 && idx < len(fileSizes) && fileSizes[idx] >= 0 {
				var v float64
				fmt.Sscanf(m[1], "%g", &v)
				shown := v * map[string]float64{"B": 1, "KB": 1 << 10, "MB": 1 << 20, "GB": 1 << 30, "TB": 1 << 40}[m[2]]
				if shown > float64(fileSizes[idx])*1.02+1024 {
					return fmt.Sprintf("%s is shown as transferred of a file of %d bytes (%s): %q", m[0], fileSizes[idx], key, vClip(vis, 140))
				}
			}
		}
	}
	return ""
}

var vProgressAmount = regexp.MustCompile(`^\d+% \| (\d+(?:\.\d+)?) (B|KB|MB|GB|TB)( \||$)`)
var vProgressIdx = regexp.MustCompile(`^(\(\d+/\d+\)) `)

// dumpWire appends the tail of every link's recorded stream to the result detail (debugging aid).
func (x *xferWorld) dumpWire(rc *runCtx, n int) {
	show := func(l *verifsim.Link) {
		sent, deliv, _ := l.Snapshot()
		a, b := sent, deliv
		if len(a) > n {
			a = a[len(a)-n:]
		}
		if len(b) > n {
			b = b[len(b)-n:]
		}
		rc.res.Detail = append(rc.res.Detail, fmt.Sprintf("link %s sent(%d) tail=%q", l.Name, len(sent), a))
		if !bytes.Equal(sent, deliv) {
			rc.res.Detail = append(rc.res.Detail, fmt.Sprintf("link %s deliv(%d) tail=%q", l.Name, len(deliv), b))
		}
	}
	for _, l := range x.up {
		show(l)
	}
	for _, l := range x.down {
		show(l)
	}
	for _, c := range x.tunnelConns {
		show(c.Wr)
		show(c.R)
	}
}

// hangClass names the state a hung conversation is stuck in (used in violation signatures).
func (x *xferWorld) hangClass() string {
	cls := ""
	for _, r := range x.relay {
		if r.relayStatus.Load() == kRelayHandshaking {
			cls += ":relay-stuck-handshaking"
			break
		}
	}
	_, deliv, _ := x.upLast().Snapshot()
	if x.markUp <= len(deliv) {
		deliv = deliv[x.markUp:]
	}
	if !x.server.Exited && len(vParseWire(deliv, false)) == 0 {
		cls += ":server-awaiting-act"
	}
	return cls
}

// firerPlaces: number of candidate places the first firer saw (enumeration space of the run).
func (x *xferWorld) firerPlaces() int {
	if len(x.firers) == 0 {
		return 0
	}
	return x.firers[0].count
}

func vInt(v any) int {
	if n, ok := v.(int); ok {
		return n
	}
	return 0
}
