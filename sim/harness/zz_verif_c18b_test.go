package trzsz

import (
	"fmt"
	"time"

	"github.com/trzsz/trzsz-go/internal/verifsim"
)

// vC18PauseRead drives the protocol-line reader of a real transfer object through a pause directly: the line it
// is reading has arrived in part (or not at all) when the question opens, the rest comes after the answer. The
// pause is shorter than the timeout, and so is every silence before and after it: the line must come back whole.
func vC18PauseRead(rc *runCtx) {
	tp := rc.tape
	w := rc.w
	T := time.Duration([]int{1, 2, 5, 20}[tp.Draw("pr.T", 4)]) * time.Second
	t := newTransfer(discardWriter{}, nil, false, nil)
	t.transferConfig.Protocol = []int{3, 4}[tp.Draw("pr.proto", 2)]
	t.transferConfig.Timeout = int(T / time.Second)
	reader := []string{"plain", "tmux-junk", "windows"}[tp.Pick("pr.reader", 5, 3, 2)]
	nl := "\n"
	switch reader {
	case "tmux-junk":
		t.transferConfig.TmuxOutputJunk = true
	case "windows":
		t.windowsProtocol = true
		nl = "!\n"
	}
	t.transferConfig.Newline = nl
	typ := []string{"SUCC", "DATA"}[tp.Draw("pr.typ", 2)]
	mk := func(i int) string {
		if typ == "SUCC" {
			return fmt.Sprintf("%d/%d", 10240*(1+tp.Draw("pr.n", 50)), i)
		}
		raw := make([]byte, 8+tp.Draw("pr.len", 120))
		for j := range raw {
			raw[j] = byte(tp.Draw("pr.b", 256))
		}
		return vEncode(raw)
	}
	nBefore := tp.Draw("pr.before", 3)
	cycles := 1 + tp.Pick("pr.cycles", 4, 1)
	var want []string
	for i := 0; i < nBefore+cycles; i++ {
		want = append(want, mk(i))
	}
	type result struct {
		line string
		err  string
		at   time.Duration
	}
	var got []result
	var readBegan []time.Duration
	consumerDone := false
	w.Go("consumer", nil, func() {
		for range want {
			readBegan = append(readBegan, w.Now())
			buf, _, _, err := t.recvCheckV2(typ)
			r := result{line: string(buf), at: w.Now()}
			if err != nil {
				r.err = err.Error()
			}
			got = append(got, r)
			if err != nil {
				break
			}
		}
		consumerDone = true
	})
	frac := func(name string, choices ...float64) time.Duration {
		return time.Duration(float64(T) * choices[tp.Draw(name, len(choices))])
	}
	class := "after-answer"
	var plan []string
	producerDone := false
	w.Go("producer", nil, func() {
		for i := 0; i < nBefore; i++ {
			t.addReceivedData([]byte("#"+typ+":"+want[i]+nl), false)
			verifsim.Sleep(time.Duration(1+tp.Draw("pr.gap", 30)) * time.Millisecond)
		}
		for c := 0; c < cycles; c++ {
			line := []byte("#" + typ + ":" + want[nBefore+c] + nl)
			// the reader has been waiting for this line for `quiet`; `k` bytes of it arrive; `lead` later the
			// question opens, for `d`; the rest arrives `extra` after the answer
			quiet := frac("pr.quiet", 0, 0.1, 0.3)
			lead := frac("pr.lead", 0.01, 0.2, 0.4)
			d := frac("pr.d", 0.02, 0.3, 0.5, 0.75)
			extra := frac("pr.extra", 0.01, 0.3, 0.6, 0.9)
			k := tp.Draw("pr.k", len(line))
			if tp.Bool("pr.whole", 150) {
				k = 0
			}
			if reader == "windows" && k > len(line)-len(nl) {
				// the Windows reader has the whole line at its '!': a cut behind it is no cut of the line (the reader
				// would return at once and wait for the NEXT line through all the silences of this plan)
				k = len(line) - len(nl)
			}
			verifsim.Sleep(quiet)
			if k > 0 {
				t.addReceivedData(append([]byte(nil), line[:k]...), false)
			}
			verifsim.Sleep(lead)
			t.pauseTransferringFiles()
			rc.fault("pause")
			if quiet+lead+d > T-50*time.Millisecond && quiet+lead+d < T+50*time.Millisecond {
				d += 100 * time.Millisecond // not on the edge
			}
			if quiet+lead+d >= T {
				class = "while-question-open"
			}
			verifsim.Sleep(d)
			t.resumeTransferringFiles()
			verifsim.Sleep(extra)
			t.addReceivedData(append([]byte(nil), line[k:]...), false)
			plan = append(plan, fmt.Sprintf("quiet %v, %d of %d bytes, lead %v, pause %v, rest %v after the answer", quiet, k, len(line), lead, d, extra))
			if k > 0 {
				rc.fault("line-cut-before-pause")
			}
			verifsim.Sleep(time.Duration(1+tp.Draw("pr.gap", 30)) * time.Millisecond)
		}
		producerDone = true
	})
	w.Run(func() bool { return producerDone && consumerDone })
	if !consumerDone {
		w.Go("tick", nil, func() { verifsim.Sleep(3 * T) })
		w.Run(func() bool { return consumerDone })
	}
	rc.res.ClassKey = fmt.Sprintf("pauseread %s T=%v %s n%d c%d %s", reader, T, typ, nBefore, cycles, class)
	rc.res.Scenario["reader"] = reader
	rc.res.Scenario["timeout"] = T.String()
	rc.res.Scenario["plan"] = plan
	rc.res.Scenario["old_deadline_expires"] = class
	for i, wnt := range want {
		if i >= len(got) {
			rc.violate("pause", "C18:pauseread:never-returned", "line %d was never returned (T=%v, %s reader); %v", i, T, reader, plan)
			return
		}
		if got[i].err != "" || got[i].line != wnt {
			what := "half-read-line-lost"
			if got[i].err == errReceiveDataTimeout.Error() {
				what = "timeout"
			}
			rc.violate("pause", "C18:pauseread:"+what+":deadline-expired-"+class, "T=%v, %s reader, line %d #%s:%s came back as %q err=%q; every silence and the pause were shorter than the timeout: %v",
				T, reader, i, typ, vClip(wnt, 60), vClip(got[i].line, 60), vClip(got[i].err, 120), plan)
			return
		}
	}
	rc.res.Nontrivial = true
}
