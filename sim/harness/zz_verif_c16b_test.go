package trzsz

import (
	"bytes"
	"encoding/json"
	"fmt"
	"time"

	"github.com/trzsz/trzsz-go/internal/verifsim"
)

// vC16RelayWindows: the same Windows-console decoration in front of a relay. A relay between the user and a
// Windows-framed server reads two lines itself, the client's ACT and the server's CFG; the CFG reaches it through
// the server's console. The CFG the client then receives must carry the server's settings.
func vC16RelayWindows(rc *runCtx) {
	tp := rc.tape
	w := rc.w
	cIn, cOut := w.NewLink("c>r"), w.NewLink("r>c")
	sIn, sOut := w.NewLink("r>s"), w.NewLink("s>r")
	seg := []int{0, 300, 1000}[tp.Draw("rw.seg", 3)]
	sOut.SegPm = seg
	sOut.Atomic = func(d []byte) bool { return bytes.Contains(d, []byte("::TRZSZ:TRANSFER:")) }
	sOut.SealAtomic = true
	relayProc := w.NewProc("relay")
	relayProc.Stdin = &verifsim.SimFile{R: cIn}
	relayProc.Stdout = &verifsim.SimFile{W: cOut}
	var relay *TrzszRelay
	w.Go("relay.main", relayProc, func() {
		relay = NewTrzszRelay(cIn, cOut, sIn, sOut, TrzszOptions{})
	})
	var cGot, sGot []byte
	cOut.OnWrite = func(l *verifsim.Link, d []byte) { cGot = append(cGot, d...) }
	sIn.OnWrite = func(l *verifsim.Link, d []byte) { sGot = append(sGot, d...) }
	waitUntil := func(cond func() bool) bool {
		for i := 0; i < 6000; i++ {
			if cond() {
				return true
			}
			verifsim.Sleep(time.Millisecond)
		}
		return false
	}
	cfgMap := map[string]any{"lang": "go", "bufsize": 1024 * (1 + tp.Draw("rw.buf", 9000)), "timeout": []int{20, 5, 0, 100}[tp.Draw("rw.t", 4)], "protocol": 2 + tp.Draw("rw.p", 3),
		"quiet": tp.Bool("rw.q", 500), "overwrite": tp.Bool("rw.y", 500), "directory": tp.Bool("rw.d", 500)}
	cfgJS, _ := json.Marshal(cfgMap)
	cfgPayload := vEncode(cfgJS)
	// the same for a server that is not Windows-framed: the relay reads both handshake lines with the tmux
	// junk-tolerant reader (it cannot know yet whether a tmux sits in between)
	win := !tp.Bool("rw.tmuxnoise", 400)
	nl, idSuffix := "!\n", int64(10)
	if !win {
		nl, idSuffix = "\n", 0
	}
	var noisy []byte
	var kinds []string
	if win {
		noisy, kinds = vWinNoise(tp, "CFG", cfgPayload)
	} else {
		noisy, kinds = vTmuxNoise(tp, "CFG", cfgPayload)
		kinds = append(kinds, "tmux-reader")
	}
	if win && tp.Bool("rw.redraw", 350) {
		// the console draws the beginning of the line, moves the cursor, and draws the line again
		k := 1 + tp.Draw("rw.redrawlen", vMin(len(cfgPayload)-1, 30))
		noisy = append([]byte(fmt.Sprintf("#CFG:%s\x1b[%d;1H", cfgPayload[:k], 2+tp.Draw("rw.row", 40))), noisy...)
		kinds = append(kinds, "line-redrawn")
	}
	act, _ := json.Marshal(map[string]any{"lang": "go", "version": "1.1.8", "confirm": true, "newline": nl, "protocol": 4, "binary": true, "support_dir": true})
	actLine := []byte("#ACT:" + vEncode(act) + nl)
	lbl := "relay-windows"
	if !win {
		// what reaches the relay from the client's side is not rendered by any terminal; keys typed ahead, or the
		// tail of a stale line, may sit in front of the marker
		if tp.Bool("rw.actfront", 400) {
			front := []string{"ls -l", "#SUCC:stale", "##", "abc#", "#A", "\x1b[?62;1;6c"}[tp.Draw("rw.actfrontk", 6)]
			actLine = append([]byte(front), actLine...)
			kinds = append(kinds, "front-text-before-ACT")
		}
		lbl = "relay-tmux"
	}
	rc.res.ClassKey = fmt.Sprintf("%s %v", lbl, vKindSet(kinds))
	rc.res.Scenario["noise"] = vKindSet(kinds)
	ok, stuckAt := true, ""
	cDone, sDone := false, false
	// decoration may keep arriving from the server's side, in many small reads, before the client's ACT is there
	nNoise := 0
	if tp.Bool("rw.noiseburst", 200) {
		nNoise = 120 + tp.Draw("rw.noiseburstn", 400)
		kinds = append(kinds, "many-reads-before-ACT")
		rc.res.ClassKey += " burst"
	}
	noiseDone := nNoise == 0
	w.Go("client", nil, func() {
		defer func() { cDone = true }()
		if !waitUntil(func() bool { return relay != nil && bytes.Contains(cGot, []byte("::TRZSZ:TRANSFER:")) && noiseDone }) {
			ok, stuckAt = false, "client: trigger"
			return
		}
		cIn.Write(actLine)
		if !waitUntil(func() bool { return bytes.Contains(cGot, []byte("#CFG:")) && bytes.Contains(cGot[bytes.Index(cGot, []byte("#CFG:")):], []byte(nl[:1])) || bytes.Contains(cGot, []byte("#FAIL:")) }) {
			ok, stuckAt = false, "client: CFG"
			return
		}
		cIn.Write([]byte("#EXIT:" + vEncode([]byte("done")) + nl))
	})
	w.Go("server", nil, func() {
		defer func() { sDone = true }()
		if !waitUntil(func() bool { return relay != nil }) {
			return
		}
		sOut.Write([]byte(fmt.Sprintf("\x1b7\x07::TRZSZ:TRANSFER:S:1.1.8:%013d:0\r\n", int64(4668480000000)+idSuffix+int64(tp.Draw("rw.id", 90))*100)))
		for k := 0; k < nNoise; k++ {
			sOut.Write([]byte([]string{"\x1b[0m", "\x1b[?25l", "\x1b[K", "\x1b[1;1H"}[k%4]))
			if k%16 == 15 {
				verifsim.Sleep(time.Millisecond)
			}
		}
		noiseDone = true
		if !waitUntil(func() bool { return bytes.Contains(sGot, []byte("#ACT:")) }) {
			ok, stuckAt = false, "server: ACT"
			return
		}
		sOut.Write(noisy)
		waitUntil(func() bool { return bytes.Contains(sGot, []byte("#EXIT:")) || bytes.Contains(cGot, []byte("#FAIL:")) })
		sOut.Write([]byte("\x1b8\x1b[0Jdone\r\n"))
	})
	w.Run(func() bool { return cDone && sDone || w.Now() > time.Minute })
	x := &xferWorld{rc: rc, w: w, o: &xferOpts{}}
	x.settle(300 * time.Millisecond)
	if !ok || !cDone || !sDone {
		rc.violate("noise", "C16:"+lbl+"-stuck", "through a relay in front of a noisy (%s) server the handshake did not complete (%s); noise %v; the server's console wrote %s; the client got %s", lbl, stuckAt, vKindSet(kinds), vQuote(noisy, 200), vQuote(vTail(cGot, vMax0(len(cGot)-200)), 210))
		return
	}
	if f := bytes.Index(cGot, []byte("#FAIL:")); f >= 0 {
		end := bytes.IndexAny(cGot[f:], "!\n")

		if end < 0 {
			end = len(cGot) - f
		}
		msg, _ := vDecode(string(cGot[f+6 : f+end]))
		rc.violate("noise", "C16:"+lbl+"-fail", "the relay could not read the server's CFG through the console decoration: %q; noise %v; the console wrote %s", msg, vKindSet(kinds), vQuote(noisy, 240))
		return
	}
	i := bytes.Index(cGot, []byte("#CFG:"))
	if i < 0 {
		rc.violate("noise", "C16:"+lbl+"-no-cfg", "no CFG reached the client; noise %v; the console wrote %s", vKindSet(kinds), vQuote(noisy, 240))
		return
	}
	j := bytes.IndexByte(cGot[i:], nl[0])
	if j < 0 {
		j = len(cGot) - i
	}
	if msg := vCompareHandshake("#CFG:", []byte("#CFG:"+cfgPayload+"\n"), append(append([]byte{}, cGot[i:i+j]...), '\n')); msg != "" {
		rc.violate("noise", "C16:"+lbl+"-cfg", "%s; noise %v; the console wrote %s", msg, vKindSet(kinds), vQuote(noisy, 240))
		return
	}
	rc.res.Nontrivial = true
}
