package trzsz

import (
	"strings"
	"bytes"
	"fmt"
	"io"
	"os"
	"path/filepath"
	"time"

	"github.com/trzsz/trzsz-go/internal/verifsim"
)

func init() {
	vScenarios["C19"] = vScenarioC19
}

var vZCancel = []byte("\x18\x18\x18\x18\x18\x18\x18\x18\x18\x18\x08\x08\x08\x08\x08\x08\x08\x08\x08\x08")
var vGaveUpPrompt = []byte("[remote gave up] $ ")
var vZFinish = []byte("**\x18B0800000000022d\r\x8a")

// vHelper is the scripted lrzsz helper process behind the os/exec substitute.
type vHelper struct {
	w        *verifsim.World
	kind     string
	name     string
	args     []string
	dir      string
	stdin    io.Reader
	stdout   io.Writer
	done     chan int
	killed   chan struct{}
	gotIn    []byte
	exited   bool
	exitCode int
}

func (h *vHelper) Wait() int {
	select {
	case c := <-h.done:
		return c
	case <-h.killed:
		return -1
	}
}

func (h *vHelper) Kill() {
	select {
	case <-h.killed:
	default:
		close(h.killed)
	}
}

func (h *vHelper) exit(code int) {
	h.exited = true
	h.exitCode = code
	select {
	case h.done <- code:
	default:
	}
}

func vScenarioC19(rc *runCtx) {
	tp := rc.tape
	w := rc.w
	upload := tp.Bool("c19.upload", 500)
	helperKind := []string{"normal", "exit-nonzero", "exit-at-once", "silent", "late-writer", "missing"}[tp.Pick("c19.helper", 4, 2, 2, 2, 1, 2)]
	serverKind := []string{"finishes", "cancels-early", "cancels-late", "keeps-sending", "goes-quiet"}[tp.Pick("c19.server", 4, 3, 2, 2, 2)]
	veto := tp.Pick("c19.veto", 6, 1, 1) // 0 genuine header, 1 header + cancel sequence, 2 header + cannot open
	ctrlC := tp.Pick("c19.ctrlc", 3, 1, 1)
	haveFiles := !upload || tp.Bool("c19.files", 700)
	// nothing to upload: the file dialog opens. Either there is no dialog program (an error), or the user closes
	// the dialog without choosing anything (a real child process that exits the way a cancelled dialog does)
	userCancels := upload && !haveFiles && tp.Bool("c19.usercancel", 600)
	if userCancels {
		if dir := os.Getenv("PATH"); dir != "" && !strings.Contains(dir, ":") {
			z := filepath.Join(dir, "zenity")
			if os.WriteFile(z, []byte("#!/bin/sh\nexit 1\n"), 0755) == nil {
				defer os.Remove(z)
				rc.fault("chooser-closed-by-user")
			} else {
				userCancels = false
			}
		} else {
			userCancels = false
		}
	}
	emptySelection := upload && !haveFiles && !userCancels && tp.Bool("c19.emptyselection", 500)
	rc.res.ClassKey = fmt.Sprintf("up=%v helper=%s server=%s veto=%d ctrlc=%d files=%v cancel=%v empty=%v", upload, helperKind, serverKind, veto, ctrlC, haveFiles, userCancels, emptySelection)
	rc.res.Scenario["case"] = rc.res.ClassKey

	kbd, term := w.NewLink("kbd"), w.NewLink("term")
	up, down := w.NewLink("up"), w.NewLink("down")
	for _, l := range []*verifsim.Link{down} {
		l.SegPm = []int{0, 300}[tp.Draw("c19.seg", 2)]
		// start headers and cancel sequences travel within one read (the detectors work per read)
		l.Atomic = func(d []byte) bool {
			return bytes.Contains(d, []byte("**\x18B0")) || bytes.Contains(d, vZCancel[:5]) || bytes.Contains(d, []byte("cannot open")) || bytes.Contains(d, []byte("remote-shell-"))
		}
		l.SealAtomic = true
	}
	client := w.NewProc("client")
	src := filepath.Join(rc.dir, "src")
	dst := filepath.Join(rc.dir, "dst")
	os.MkdirAll(src, 0755)
	os.MkdirAll(dst, 0755)
	vWriteFile(filepath.Join(src, "up.bin"), []byte("file to upload with sz"))
	// the chosen download path may not be a directory (any more): the session then ends like any other failure
	badDst := ""
	if !upload && tp.Bool("c19.baddst", 120) {
		badDst = []string{"missing", "regular-file"}[tp.Draw("c19.baddstkind", 2)]
		dst = filepath.Join(rc.dir, "dst-"+badDst)
		if badDst == "regular-file" {
			vWriteFile(dst, []byte("a file where the download directory should be"))
		}
		rc.fault("download-path-not-a-directory")
	}
	// the remote shell answers an Enter at once with a prompt (numbered, so that each can be looked for)
	enters, probing := 0, false
	var shellPrompts [][]byte

	var helper *vHelper
	helperStarts := 0
	var helperStartAt, cancelAt, cancelLateAt time.Duration = -1, -1, -1
	promptShown, promptChecked, textOnly := false, false, false
	w.Exec = func(req *verifsim.ExecRequest) (verifsim.ExecChild, error) {
		if req.Name != "rz" && req.Name != "sz" {
			return nil, fmt.Errorf("exec: %q: executable file not found in $PATH", req.Name)
		}
		// a child cannot be started in a working directory that is none (os/exec: chdir fails)
		if req.Dir != "" {
			if st, err := os.Stat(req.Dir); err != nil || !st.IsDir() {
				return nil, fmt.Errorf("fork/exec %s: chdir %s: not a directory", req.Name, req.Dir)
			}
		}
		helperStarts++
		if helperStartAt < 0 {
			helperStartAt = w.Now()
		}
		if helperKind == "missing" {
			return nil, fmt.Errorf("exec: %q: executable file not found in $PATH", req.Name)
		}
		h := &vHelper{w: w, kind: helperKind, name: req.Name, args: req.Args, dir: req.Dir, stdin: req.Stdin, stdout: req.Stdout,
			done: make(chan int, 1), killed: make(chan struct{})}
		helper = h
		// reader of what the filter forwards from the server
		w.Go("helper.read", nil, func() {
			buf := make([]byte, 4096)
			for {
				n, err := h.stdin.Read(buf)
				h.gotIn = append(h.gotIn, buf[:n]...)
				if err != nil {
					return
				}
			}
		})
		w.Go("helper.main", nil, func() {
			switch h.kind {
			case "exit-at-once":
				h.exit(tp.Draw("c19.code", 2))
			case "exit-nonzero":
				verifsim.Sleep(time.Duration(10+tp.Draw("c19.hms", 300)) * time.Millisecond)
				h.stdout.Write([]byte("**\x18B0100000023be50\r\x8a\x11"))
				verifsim.Sleep(50 * time.Millisecond)
				h.exit(1 + tp.Draw("c19.code2", 3))
			case "silent":
				// never writes, never exits on its own
			case "normal", "late-writer":
				if h.kind == "late-writer" {
					verifsim.Sleep(time.Duration(800+tp.Draw("c19.late", 1500)) * time.Millisecond)
				}
				for i := 0; i < 3; i++ {
					verifsim.Sleep(time.Duration(5+tp.Draw("c19.hgap", 60)) * time.Millisecond)
					if _, err := h.stdout.Write([]byte(fmt.Sprintf("helper-data-%d-%s", i, vNoise(tp, 20, true)))); err != nil {
						break
					}
				}
				// wait for the server's finish frame, then finish too
				for k := 0; k < 400; k++ {
					if bytes.Contains(h.gotIn, vZFinish[:8]) || bytes.Contains(h.gotIn, vZCancel[:5]) {
						break
					}
					select {
					case <-h.killed:
						return
					default:
					}
					verifsim.Sleep(10 * time.Millisecond)
				}
				h.stdout.Write(vZFinish)
				verifsim.Sleep(20 * time.Millisecond)
				h.exit(0)
			}
		})
		return h, nil
	}

	var filter *TrzszFilter
	ready := false
	w.Go("client.main", client, func() {
		filter = NewTrzszFilter(kbd, term, up, down, TrzszOptions{TerminalColumns: 80, EnableZmodem: true})
		filter.SetDefaultDownloadPath(dst)
		if upload && haveFiles {
			filter.OneTimeUpload([]string{filepath.Join(src, "up.bin")})
		}
		if emptySelection {
			// the embedding program hands over an empty selection to upload with rz: the file list that reaches
			// the zmodem session is empty, without an error
			filter.SetDragFileUploadCommand("rz")
			filter.UploadFiles(nil)
			rc.fault("empty-selection-uploaded")
		}
		ready = true
	})
	x := &xferWorld{rc: rc, w: w, o: &xferOpts{}}
	w.Run(func() bool { return ready })

	// the remote side
	hdr := "**\x18B00000000000000\r\x8a\x11" // sz started on the server: we download
	if upload {
		hdr = "**\x18B0100000023be50\r\x8a\x11" // rz started on the server: we upload
	}
	headerChunk := []byte("rz waiting to receive.\r" + hdr)
	switch veto {
	case 1:
		headerChunk = append(headerChunk, vZCancel...)
	case 2:
		headerChunk = append([]byte("rz: cannot open /dev/tty\r\n"), headerChunk...)
	}
	{
		prev := up.OnWrite
		up.OnWrite = func(l *verifsim.Link, d []byte) {
			if prev != nil {
				prev(l, d)
			}
			if probing || len(d) != 1 || d[0] != '\r' {
				return
			}
			enters++
			p := []byte(fmt.Sprintf("\r\nremote-shell-%d$ ", enters))
			shellPrompts = append(shellPrompts, p)
			w.Go("shell.prompt", nil, func() { down.Write(p) })
		}
	}
	var lastServerOut time.Duration
	var cancelText []byte
	cancelEarlyMs := 1000
	serverDone := false
	w.Go("server", nil, func() {
		if emptySelection {
			// the remote rz only starts once the client has typed the command
			for k := 0; k < 1000; k++ {
				if u, _, _ := up.Snapshot(); bytes.Contains(u, []byte("rz\r")) {
					break
				}
				verifsim.Sleep(10 * time.Millisecond)
			}
			verifsim.Sleep(20 * time.Millisecond)
		}
		down.Write([]byte("$ rz\r\n"))
		down.Write(headerChunk)
		lastServerOut = w.Now()
		if veto != 0 {
			serverDone = true
			return
		}
		switch serverKind {
		case "cancels-early":
			// before the 100 ms the client waits for exactly this, while the chooser is open, or just after
			ms := tp.Draw("c19.early", 95)
			switch tp.Pick("c19.earlyslot", 2, 3, 1) {
			case 1:
				ms = 100 + tp.Draw("c19.choosing", 50)
			case 2:
				ms = 150 + tp.Draw("c19.juststarted", 70)
			}
			cancelEarlyMs = ms
			verifsim.Sleep(time.Duration(ms) * time.Millisecond)
			cancelAt = w.Now()
			if tp.Bool("c19.cannotopen", 300) {
				textOnly = true
				down.Write([]byte("rz: cannot open /dev/tty\r\n"))
			} else if tp.Bool("c19.canceltext", 300) {
				// the cancel bytes share their read with what the remote side prints as it gives up
				cancelText = []byte("\r\nrz: skipped, receive cancelled by the remote side (c19)\r\n$ ")
				down.Write(append(append([]byte{}, vZCancel...), cancelText...))
			} else {
				down.Write(vZCancel)
			}
		case "cancels-late":
			verifsim.Sleep(time.Duration(150+tp.Draw("c19.latec", 600)) * time.Millisecond)
			down.Write([]byte("zdata-1"))
			cancelLateAt = w.Now()
			down.Write(vZCancel)
		case "finishes":
			// a zmodem sender only sends file data once the other end has answered its header
			for k := 0; k < 300; k++ {
				if u, _, _ := up.Snapshot(); bytes.Contains(u, []byte("helper-data-0-")) || bytes.Contains(u, vZCancel[:5]) {
					break
				}
				verifsim.Sleep(10 * time.Millisecond)
			}
			for i := 0; i < 3; i++ {
				verifsim.Sleep(time.Duration(120+tp.Draw("c19.sgap", 200)) * time.Millisecond)
				down.Write([]byte(fmt.Sprintf("zdata-%d-%s", i, vNoise(tp, 30, true))))
			}
			down.Write(vZFinish)
		case "keeps-sending":
			n := 10 + tp.Draw("c19.keep", 40)
			for i := 0; i < n; i++ {
				verifsim.Sleep(100 * time.Millisecond)
				down.Write([]byte(fmt.Sprintf("zdata-%d", i)))
			}
		case "goes-quiet":
		}
		if (serverKind == "cancels-early" || serverKind == "cancels-late") && ctrlC == 0 {
			// the remote side gave up: two seconds later its shell prints a prompt, which must not be swallowed
			verifsim.Sleep(2 * time.Second)
			down.Write(vGaveUpPrompt)
			verifsim.Sleep(1500 * time.Millisecond)
			t, _, _ := term.Snapshot()
			promptShown = bytes.Contains(t, vGaveUpPrompt)
			promptChecked = true
		}
		lastServerOut = w.Now()
		serverDone = true
	})
	ctrlAt := time.Duration(-1)
	if ctrlC != 0 {
		w.Go("user", client, func() {
			d := time.Duration(tp.Draw("c19.ctrlcat", 1500)) * time.Millisecond
			if ctrlC == 2 {
				d = time.Duration(tp.Draw("c19.ctrlcat.early", 120)) * time.Millisecond
			}
			verifsim.Sleep(d)
			ctrlAt = w.Now()
			kbd.Write([]byte{0x03})
		})
	}
	w.Run(func() bool { return serverDone })
	// whatever happened, 25 s later every internal timer (20 s client/server timeouts) has fired
	x.settle(26 * time.Second)
	upAll, _, _ := up.Snapshot()
	termAll, _, _ := term.Snapshot()
	rc.res.Scenario["helper_starts"] = helperStarts
	rc.res.Scenario["helper_start_at"], rc.res.Scenario["server_cancel_at"] = helperStartAt.String(), cancelAt.String()
	if helper != nil {
		killed := false
		select {
		case <-helper.killed:
			killed = true
		default:
		}
		rc.res.Scenario["helper_got"], rc.res.Scenario["helper_killed"], rc.res.Scenario["helper_exited"] = vQuote(helper.gotIn, 80), killed, helper.exited
	}
	rc.res.Scenario["server_got"] = vQuote(upAll, 120)

	if veto != 0 {
		if helperStarts != 0 {
			rc.violate("veto", "C19:veto-ignored", "a header accompanied by %s started the %s helper", []string{"", "a cancel sequence", "'cannot open'"}[veto], map[bool]string{true: "sz", false: "rz"}[upload])
			return
		}
		if !bytes.Contains(termAll, headerChunk) {
			rc.violate("veto", "C19:veto-not-shown", "the vetoed header chunk did not reach the terminal unmodified: %s", vQuote(termAll, 120))
			return
		}
	} else {
		// matching helper
		if helperStarts > 0 && helper != nil {
			want := "rz"
			if upload {
				want = "sz"
			}
			if helper.name != want {
				rc.violate("helper", "C19:wrong-helper", "header for %s started helper %q", map[bool]string{true: "upload", false: "download"}[upload], helper.name)
				return
			}
			if !upload && helper.dir != dst {
				rc.violate("helper", "C19:wrong-dir", "rz started in %q, chosen download path is %q", helper.dir, dst)
				return
			}
		}
		if helperStarts > 1 {
			rc.violate("helper", "C19:helper-twice", "the helper was started %d times for one session", helperStarts)
			return
		}
		if badDst != "" && helperStarts != 0 {
			rc.violate("helper", "C19:helper-started-without-directory", "the download path is %s, yet rz was started", badDst)
			return
		}
		if badDst == "" && haveFiles && helperStarts == 0 && ctrlC == 0 && serverKind != "cancels-early" {
			rc.violate("helper", "C19:helper-not-started", "a genuine %s header did not start the helper (server %s)", map[bool]string{true: "upload", false: "download"}[upload], serverKind)
			return
		}
		// bridging: helper output reached the server, server data reached the helper
		if helper != nil && (helperKind == "normal") && serverKind == "finishes" && ctrlC == 0 {
			if !bytes.Contains(upAll, []byte("helper-data-0-")) {
				rc.violate("bridge", "C19:helper-output-lost", "helper output did not reach the server: %s", vQuote(upAll, 120))
				return
			}
			if !bytes.Contains(helper.gotIn, []byte("zdata-0-")) {
				rc.violate("bridge", "C19:server-data-lost", "server data did not reach the helper: %s", vQuote(helper.gotIn, 120))
				return
			}
			rc.w.Probe("clean-session")
		}
		// the still-waiting side gets the cancel sequence: whenever the session did not complete on
		// both sides, the server must have been told
		completed := helper != nil && helperKind != "silent" && helper.exited && helper.exitCode == 0 && serverKind == "finishes" && ctrlC == 0
		serverCancelled := serverKind == "cancels-early" || serverKind == "cancels-late"
		if !completed && !serverCancelled && !bytes.Contains(upAll, vZCancel[:10]) {
			rc.violate("cancel", "C19:server-not-cancelled", "the session ended abnormally (helper %s, server %s, ctrl-c %d, files %v) but the server never received the cancel sequence; server got %s",
				helperKind, serverKind, ctrlC, haveFiles, vQuote(upAll, 100))
			return
		}
		// a Ctrl-C in the first moments of a session (the helper is not running yet, the chooser may be open) is a
		// Ctrl-C like any other: the server is told within a second of the key
		if ctrlC == 2 && ctrlAt >= 0 && !serverCancelled {
			sent, _, evs := up.Snapshot()
			told := time.Duration(-1)
			passedOn := false
			for _, e := range evs {
				if bytes.Contains(sent[e.Off:e.Off+e.N], vZCancel[:10]) {
					// (told before the key: the session had already ended for a reason of its own)
					told = e.T
					break
				}
				if e.T >= ctrlAt && e.T <= ctrlAt+200*time.Millisecond && e.N == 1 && sent[e.Off] == 0x03 {
					// the key itself went to the remote side: the client had not taken the session up yet
					passedOn = true
				}
			}
			if passedOn {
				told = ctrlAt
			}
			rc.res.Scenario["ctrl_c_at"], rc.res.Scenario["server_told_at"] = ctrlAt.String(), told.String()
			if told < 0 || told > ctrlAt+time.Second {
				rc.violate("cancel", "C19:early-ctrl-c-ignored", "Ctrl-C at %v (helper %s, started at %v; server %s): the server was sent the cancel sequence at %v (-1ns: never)", ctrlAt, helperKind, helperStartAt, serverKind, told)
				return
			}
		}
		// the server gave up before the helper was started (the chooser was still open): a helper started
		// afterwards is told at once (what a helper that ignores the cancel sequence writes before it is killed
		// is not covered by the statement)
		if helper != nil && cancelAt >= 0 && helperStartAt > cancelAt+5*time.Millisecond {
			rc.w.Probe("server-cancelled-while-choosing")
			told := bytes.Contains(helper.gotIn, vZCancel[:10])
			select {
			case <-helper.killed:
				told = true
			default:
			}
			if !told {
				rc.violate("cancel", "C19:late-helper-not-cancelled", "the server cancelled at %v, the %s helper was started at %v and was neither sent the cancel sequence nor killed (helper %s)", cancelAt, helper.name, helperStartAt, helperKind)
				return
			}
		}
		// after the remote side has given up and been quiet for two seconds, what it prints is shown (helpers
		// that honour the cancel sequence or are gone by then; a helper that ignores it is not covered)
		// (a complaint without cancel bytes only counts as giving up while no helper is running yet)
		if textOnly && helperStartAt >= 0 && helperStartAt <= cancelAt {
			promptChecked = false
		}
		if promptChecked && !promptShown && (helperKind == "normal" || helperKind == "exit-at-once" || helperKind == "exit-nonzero" || helperKind == "missing") {
			rc.violate("handback", "C19:output-swallowed-after-giveup", "the remote side gave up (server %s at %v/%v, helper %s) and was quiet for 2 s; the prompt it printed then had not reached the terminal 1.5 s later: terminal tail %s",
				serverKind, cancelAt, cancelLateAt, helperKind, vQuote(vTail(termAll, vMax0(len(termAll)-80)), 90))
			return
		}
		if helper != nil && helperKind == "silent" && !bytes.Contains(helper.gotIn, vZCancel[:10]) {
			select {
			case <-helper.killed:
			default:
				rc.violate("cancel", "C19:helper-not-cancelled", "the helper never wrote anything and never exited, yet it was neither sent the cancel sequence nor killed")
				return
			}
		}
	}
	// the Enter the client types for a fresh prompt when it hands the terminal back: what the shell answers to
	// it is shown (a second Enter now and then is harmless and not judged)
	probing = true
	rc.res.Scenario["enters_typed_by_client"] = enters
	// what the remote side printed in the same read as its cancel bytes, before any helper existed, is shown
	// (only when the remote side was the first to end the session: it cancelled within the 100 ms the client waits)
	if cancelText != nil && ctrlC == 0 && cancelEarlyMs < 95 && !bytes.Contains(termAll, bytes.TrimSpace(cancelText)) {
		rc.violate("handback", "C19:text-beside-cancel-swallowed", "the remote side cancelled before a helper ran and printed %q in the same read as its cancel bytes: that text never reached the terminal (case %s): terminal tail %s", cancelText, rc.res.ClassKey, vQuote(vTail(termAll, vMax0(len(termAll)-120)), 130))
		return
	}
	for i, p := range shellPrompts {
		if !bytes.Contains(termAll, bytes.TrimLeft(p, "\r\n")) {
			rc.violate("handback", "C19:prompt-after-enter-swallowed", "the remote shell answered the client's Enter at once with prompt %d, which never reached the terminal (case %s): terminal tail %s", i+1, rc.res.ClassKey, vQuote(vTail(termAll, vMax0(len(termAll)-100)), 110))
			return
		}
	}
	// hand-back: typed input flows again, and remote output is shown
	upBefore := up.NSentInt()
	termBefore := term.NSentInt()
	// the very first key after the session is a lone Ctrl-C (no remote output since the hand-back)
	in := []byte("\x03echo typed-after-zmodem\r")
	w.Go("probe.in", nil, func() {
		for _, c := range in {
			kbd.Write([]byte{c})
			verifsim.Sleep(time.Millisecond)
		}
	})
	x.settle(1 * time.Second)
	upNow, _, _ := up.Snapshot()
	if !bytes.Contains(upNow[upBefore:], in) {
		rc.violate("handback", "C19:input-still-dropped", "26 s after the remote side went quiet typed input is still not passed to the server (case %s; last server output at %v); server got %s",
			rc.res.ClassKey, lastServerOut, vQuote(upNow[upBefore:], 80))
		return
	}
	out := []byte("probe-after-zmodem $ \x1b[0m")
	w.Go("probe.out", nil, func() { down.Write(out) })
	x.settle(1 * time.Second)
	termNow, _, _ := term.Snapshot()
	if !bytes.Contains(termNow[termBefore:], out) {
		rc.violate("handback", "C19:output-swallowed", "remote output printed 27 s after the session's last traffic was swallowed (case %s): terminal got %s", rc.res.ClassKey, vQuote(termNow[termBefore:], 80))
		return
	}
	rc.res.Probes = rc.w.Probes
	rc.res.Nontrivial = true
}
