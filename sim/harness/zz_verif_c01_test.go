package trzsz

import (
	"bytes"
	"fmt"
	"math/rand"
	"os"
	"path/filepath"
	"sort"
	"strings"
	"time"

	"github.com/trzsz/trzsz-go/internal/verifsim"
)

func init() {
	vScenarios["C01"] = vScenarioC01
}

// vXferConfig is the generated configuration vector of a transfer (shared by several checks).
type vXferConfig struct {
	upload            bool
	binary, escapeAll bool
	compress          string // "", "yes", "no"
	bufSize           string
	overwrite         bool
	dirMode           bool
	timeout           int
	quiet             bool
	protocol          int    // 0 = leave what the client offers; 1..4 = force via the ACT
	trigVersion       string // "" = genuine
	cliWindows        bool
	srvWindows        bool
	tunnel            bool
	fork              bool
	relays            int
	relayTmux         []string
	srvTmux           string
}

func (c *vXferConfig) flags() []string {
	var f []string
	if c.binary {
		f = append(f, "-b")
	}
	if c.escapeAll {
		f = append(f, "-e")
	}
	if c.compress != "" {
		f = append(f, "-c", c.compress)
	}
	if c.bufSize != "" {
		f = append(f, "-B", c.bufSize)
	}
	if c.overwrite {
		f = append(f, "-y")
	}
	if c.dirMode {
		f = append(f, "-d")
	}
	if c.timeout != 20 {
		f = append(f, "-t", fmt.Sprint(c.timeout))
	}
	if c.quiet {
		f = append(f, "-q")
	}
	if c.fork {
		f = append(f, "-f")
	}
	return f
}

func (c *vXferConfig) key() string {
	dir := "dn"
	if c.upload {
		dir = "up"
	}
	return fmt.Sprintf("%s b%v e%v c%s B%s y%v d%v p%d v%s cw%v sw%v tun%v f%v r%d%v st%s", dir, c.binary, c.escapeAll, c.compress, c.bufSize,
		c.overwrite, c.dirMode, c.protocol, c.trigVersion, c.cliWindows, c.srvWindows, c.tunnel, c.fork, c.relays, c.relayTmux, c.srvTmux)
}

func vDrawConfig(tp *verifsim.Tape, full bool) *vXferConfig {
	c := &vXferConfig{timeout: 20}
	c.upload = tp.Draw("dir", 2) == 1
	c.binary = tp.Bool("bin", 400)
	if c.binary {
		c.escapeAll = tp.Bool("esc", 400)
	}
	c.compress = []string{"", "yes", "no"}[tp.Pick("comp", 3, 1, 1)]
	c.bufSize = []string{"", "1K", "4k", "64K", "1M", "10m"}[tp.Pick("bufsz", 4, 1, 1, 1, 1, 1)]
	c.overwrite = tp.Bool("overwrite", 350)
	c.dirMode = tp.Bool("dirmode", 450)
	c.timeout = []int{20, 5, 60, 0}[tp.Pick("timeout", 6, 2, 1, 1)]
	c.quiet = tp.Bool("quiet", 400)
	c.protocol = []int{0, 1, 2, 3, 4}[tp.Pick("proto", 4, 1, 1, 1, 1)]
	if c.protocol == 0 && tp.Bool("oldtrig", 120) {
		c.trigVersion = []string{"1.1.0", "1.1.1", "1.1.2", "1.1.3"}[tp.Draw("trigver", 4)]
	}
	if full {
		switch tp.Pick("win", 8, 1, 1) {
		case 1:
			c.cliWindows = true
		case 2:
			c.srvWindows = true
		}
		c.tunnel = tp.Bool("tunnel", 300)
		if c.tunnel {
			c.fork = tp.Bool("fork", 300)
		}
		c.relays = tp.Pick("relays", 6, 2, 1)
		for i := 0; i < c.relays; i++ {
			c.relayTmux = append(c.relayTmux, []string{"", "normal", "control"}[tp.Pick("rtmux", 3, 1, 1)])
		}
		c.srvTmux = []string{"", "normal", "control"}[tp.Pick("stmux", 6, 1, 1)]
	}
	return c
}

func (c *vXferConfig) opts() *xferOpts {
	o := &xferOpts{upload: c.upload, flags: c.flags(), relays: c.relays, relayTmux: c.relayTmux, tunnel: c.tunnel,
		cliWindows: c.cliWindows, srvWindows: c.srvWindows, srvTmux: c.srvTmux, tunnelFast: c.fork}
	if c.protocol > 0 {
		p := c.protocol
		o.actEdit = func(act map[string]any) {
			if p == 1 {
				delete(act, "protocol")
			} else {
				act["protocol"] = p
			}
		}
	}
	if c.trigVersion != "" {
		v := c.trigVersion
		o.trigEdit = func(b []byte) []byte {
			return []byte(strings.Replace(string(b), ":"+kTrzszVersion+":", ":"+v+":", 1))
		}
	}
	return o
}

// vPriorContent is an older version of a file with content b, as a destination may hold it before
// the transfer: longer, a prefix, unrelated, the same with a tail, a common prefix followed by
// something else (the resume exchange then matches some steps and not the next), or identical.
func vPriorContent(tp *verifsim.Tape, b []byte) []byte {
	switch tp.Pick("prior.kind", 1, 1, 1, 1, 3, 1) {
	case 0:
		return append(append([]byte{}, b...), []byte("stale tail of a longer old file")...)
	case 1:
		return append([]byte{}, b[:len(b)/2]...)
	case 2:
		return []byte("completely different old content")
	case 3:
		return append(append([]byte{}, b...), tp.Bytes("prior.tail", 1+tp.Draw("prior.len", 5000))...)
	case 4:
		cut := 0
		if len(b) > 0 {
			cut = tp.Draw("prior.cut", len(b))
		}
		tail := tp.Bytes("prior.difftail", 1+tp.Draw("prior.difflen", 9000))
		if cut < len(b) && len(tail) > 0 && tail[0] == b[cut] {
			tail[0] ^= 0x55
		}
		return append(append([]byte{}, b[:cut]...), tail...)
	}
	return append([]byte{}, b...)
}

// vC01ManyFiles: more files in one transfer than the process may hold open at once, in per-file
// mode (no archive): descriptors in use must not grow with the file count.
func vC01ManyFiles(rc *runCtx) {
	tp := rc.tape
	cfg := vDrawConfig(tp, false)
	cfg.timeout = 20
	cfg.bufSize = ""
	cfg.trigVersion = ""
	// per-file mode: either overwrite, or an older protocol, or plain files without -d
	shape := tp.Draw("many.shape", 3)
	switch shape {
	case 0:
		cfg.dirMode, cfg.overwrite = true, true
	case 1:
		cfg.dirMode, cfg.overwrite, cfg.protocol = true, false, 2+tp.Draw("many.proto", 2)
	default:
		cfg.dirMode = false
	}
	src := filepath.Join(rc.dir, "src")
	dst := filepath.Join(rc.dir, "dst")
	os.MkdirAll(dst, 0755)
	n := 130 + tp.Draw("many.n", 120)
	var paths []string
	if cfg.dirMode {
		top := filepath.Join(src, "many")
		os.MkdirAll(top, 0755)
		for i := 0; i < n; i++ {
			data, _ := vGenContent(tp, tp.Draw("many.size", 700))
			vWriteFile(filepath.Join(top, fmt.Sprintf("f%03d.dat", i)), data)
		}
		paths = []string{top}
	} else {
		os.MkdirAll(src, 0755)
		for i := 0; i < n; i++ {
			data, _ := vGenContent(tp, tp.Draw("many.size", 700))
			p := filepath.Join(src, fmt.Sprintf("f%03d.dat", i))
			vWriteFile(p, data)
			paths = append(paths, p)
		}
	}
	o := cfg.opts()
	o.srcPaths = paths
	o.dstDir = dst
	o.profile = vDrawProfile(tp, cfg.timeout)
	o.profile.capForHops(cfg.timeout, cfg.relays)
	o.profile.bytesPerMs, o.profile.latPm = 0, 0
	rc.res.ClassKey = fmt.Sprintf("many shape%d %s", shape, cfg.key())
	rc.res.Scenario["config"] = cfg.key()
	rc.res.Scenario["flags"] = strings.Join(o.flags, " ")
	rc.res.Scenario["files"] = n
	fd0 := vOpenFDs()
	maxFD := fd0
	before := vSnapshot(dst)
	x := newXferWorld(rc, o)
	x.start()
	rc.w.Run(func() bool {
		if f := vOpenFDs(); f > maxFD {
			maxFD = f
		}
		return x.finished()
	})
	rep := x.report()
	rc.res.Scenario["fd_baseline"] = fd0
	rc.res.Scenario["fd_peak"] = maxFD
	vCheckFidelity(rc, x, rep, before, true)
	if rc.res.Class == "violation" && strings.Contains(rc.res.Msg, "too many open files") {
		rc.res.Kind = "fd-exhaustion"
		rc.res.Sig = "C01:too-many-open-files"
		return
	}
	if rc.res.Class != "ok" {
		return
	}
	if grow := maxFD - fd0; grow > 40 && grow > n/3 {
		rc.violate("fd-growth", "C01:fd-growth", "open descriptors grew by %d (baseline %d, peak %d) while transferring %d files one by one (%s)", grow, fd0, maxFD, n, rc.res.Scenario["flags"])
	}
}

func vScenarioC01(rc *runCtx) {
	if rc.param("many", "0") == "1" {
		vC01ManyFiles(rc)
		return
	}
	if rc.param("bufedge", "0") == "1" {
		vC01BufEdge(rc)
		return
	}
	tp := rc.tape
	if tp.Bool("c01.dupnames", 40) {
		vC01DupNames(rc)
		return
	}
	cfg := vDrawConfig(tp, rc.param("full", "1") == "1")
	maxSize := 400000
	if cfg.bufSize == "1K" || cfg.bufSize == "4k" {
		maxSize = 140000
	}
	src := filepath.Join(rc.dir, "src")
	dst := filepath.Join(rc.dir, "dst")
	os.MkdirAll(dst, 0755)
	if cfg.protocol == 1 && cfg.binary && tp.Bool("c01.v1buf", 600) {
		// protocol 1 cuts raw chunks up to the buffer size and escapes them afterwards
		cfg.bufSize = []string{"16K", "10K", "64K"}[tp.Draw("c01.v1bufsz", 3)]
	}
	spec := vGenSources(rc, src, 4, cfg.dirMode, maxSize, !cfg.overwrite)
	// the destination is not always empty: older versions of the same names (shorter, longer, a
	// prefix, different), which -y replaces and a plain transfer steps around
	if tp.Bool("c01.prior", 300) {
		for _, p := range spec.paths {
			st, err := os.Stat(p)
			if err != nil || st.IsDir() {
				continue
			}
			b, _ := os.ReadFile(p)
			old := vPriorContent(tp, b)
			vTryWrite(filepath.Join(dst, filepath.Base(p)), old)
		}
		rc.res.Scenario["prior_destination"] = true
	}
	o := cfg.opts()
	o.srcPaths = spec.paths
	o.dstDir = dst
	o.kHash = []int64{0, 1024, 4096}[tp.Draw("c01.khash", 3)]
	o.trigSplitLF = !cfg.srvWindows && cfg.srvTmux == "" && tp.Bool("c01.trigsplitlf", 100)
	o.profile = vDrawProfile(tp, cfg.timeout)
	o.profile.capForHops(cfg.timeout, cfg.relays)
	// the destination of an upload as the user types it: relative to where trz is started (also with -f, whose
	// background process must still mean the same directory)
	o.relDst = cfg.upload && tp.Bool("c01.reldst", 200)
	if cfg.upload && !cfg.fork && tp.Bool("c01.dragupload", 250) {
		o.uploadVia = 1 + tp.Draw("c01.uploadvia", 2)
		for _, p := range spec.paths {
			if strings.Contains(p, "'") {
				o.uploadVia = 1 // how a terminal would quote such a dropped path is not something trzsz defines
			}
		}
		if o.uploadVia == 2 {
			o.filterOpts.DetectDragFile = true
		}
		// the drag queue forgets the files 3 s after it has typed the command: stay well inside
		if o.profile.latMax > 200*time.Millisecond {
			o.profile.latMax = 200 * time.Millisecond
		}
		// the drag queue decides by itself whether the command needs -d: sources and mode agree
		cfg.key()
	}
	sort.Strings(spec.classes)
	rc.res.ClassKey = cfg.key()
	rc.res.Scenario["config"] = cfg.key()
	rc.res.Scenario["flags"] = strings.Join(o.flags, " ")
	rc.res.Scenario["files"] = spec.files
	rc.res.Scenario["dirs"] = spec.dirs
	rc.res.Scenario["bytes"] = spec.bytes
	rc.res.Scenario["content"] = spec.classes
	rc.res.Scenario["transport"] = o.profile.String()
	rc.res.Scenario["upload_via"] = o.uploadVia
	if o.uploadVia != 0 {
		var names []string
		for _, p := range o.srcPaths {
			names = append(names, filepath.Base(p))
		}
		rc.res.Scenario["src_names"] = names
	}
	rc.res.ClassKey += fmt.Sprintf(" via%d", o.uploadVia)

	// a transfer handed to the background (-f) gives the terminal back at once: while it is still running, what the
	// shell prints reaches the terminal and what is typed reaches the shell
	bgProbe := cfg.fork && tp.Bool("c01.bgprobe", 600)
	if bgProbe {
		// long enough to still be running when the probe is made
		big := make([]byte, 400000+tp.Draw("c01.bgbig", 400000))
		rand.New(rand.NewSource(int64(tp.Draw("c01.bgseed", 1<<30)))).Read(big)
		bp := filepath.Join(filepath.Dir(o.srcPaths[0]), "zz-long-background.bin")
		if st, err := os.Stat(o.srcPaths[0]); err == nil && st.IsDir() {
			bp = filepath.Join(o.srcPaths[0], "zz-long-background.bin")
		} else {
			o.srcPaths = append(o.srcPaths, bp)
		}
		vWriteFile(bp, big)
		o.profile.serial, o.profile.bytesPerMs, o.profile.latPm = true, 100+tp.Draw("c01.bgbw", 200), 0
	}
	before := vSnapshot(dst)
	x := newXferWorld(rc, o)
	bgResult := ""
	if bgProbe {
		rc.w.Go("bgprobe", nil, func() {
			for i := 0; i < 400; i++ {
				verifsim.Sleep(50 * time.Millisecond)
				// (as the server wrote it: whether it reaches the terminal is part of what is being asked)
				t, _, _ := x.downLast().Snapshot()
				if bytes.Contains(t, []byte("Switch to transfer in background")) {
					break
				}
				if x.server.Exited {
					return
				}
			}
			rc.res.Scenario["bg_seen_at"] = rc.w.Now().String()
			verifsim.Sleep(200 * time.Millisecond)
			if x.server.Exited {
				rc.res.Scenario["bg_over_at_probe"] = true
				return // it is over already: nothing to learn
			}
			t0, u0 := x.term.NSentInt(), x.upLast().NSentInt()
			x.downLast().Write([]byte("user@host:~$ PROBE-OUT-7f3a\r\n"))
			x.kbd.Write([]byte("echo PROBE-IN-91c2\r"))
			verifsim.Sleep(time.Second)
			stillRunning := !x.server.Exited
			t, _, _ := x.term.Snapshot()
			u, _, _ := x.upLast().Snapshot()
			rc.res.Scenario["bg_still_running"] = stillRunning
			switch {
			case !stillRunning:
			case !bytes.Contains(t[t0:], []byte("PROBE-OUT-7f3a")):
				bgResult = "what the shell printed while the transfer ran in the background did not reach the terminal within a second"
			case !bytes.Contains(u[u0:], []byte("echo PROBE-IN-91c2")):
				bgResult = "what was typed while the transfer ran in the background did not reach the shell within a second"
			default:
				rc.fault("terminal-probed-while-transfer-in-background")
			}
		})
	}
	x.start()
	rc.w.Run(x.finished)
	rep := x.report()
	rc.res.Scenario["shell_cmd"] = x.shellCmd
	if bgResult != "" {
		rc.violate("transparency", "C01:background-transfer-keeps-the-terminal", "%s (flags %v)", bgResult, o.flags)
		return
	}
	vCheckFidelity(rc, x, rep, before, true)
	if rc.job.Trace && rc.res.Class != "ok" {
		x.dumpWire(rc, 1500)
	}
}

// vCheckFidelity is the C01 oracle: liveness (both sides report success, fault-free case only)
// and safety (whatever a side reported as saved exists with exactly the source's content).
func vCheckFidelity(rc *runCtx, x *xferWorld, rep *xferReport, before vSnap, requireSuccess bool) {
	vCheckFidelityFrom(rc, x, rep, before, requireSuccess, x.termMark)
}

// vCheckFidelityFrom: progress lines are judged from terminal offset progressFrom on.
func vCheckFidelityFrom(rc *runCtx, x *xferWorld, rep *xferReport, before vSnap, requireSuccess bool, progressFrom int) {
	o := x.o
	rc.res.Scenario["client_ok"] = rep.clientOK
	rc.res.Scenario["server_ok"] = rep.serverOK
	rc.res.Scenario["sim"] = rc.w.Now().String()
	if rep.cfg != nil {
		rc.res.Scenario["cfg_protocol"] = rep.cfg["protocol"]
		rc.res.Scenario["cfg_binary"] = rep.cfg["binary"]
	}
	rc.res.Scenario["tunnel_used"] = rep.tunnelUsed
	if !x.paused {
		for _, m := range append(append([]vMsg{}, rep.clientMsgs...), rep.serverMsgs...) {
			if m.Typ == "DATA" && m.Payload == "=" {
				rc.violate("lone-pad", "C01:lone-pad-chunk", "a data chunk consisting of a lone '=' was sent although nobody paused: the receiver takes it for the keep-alive marker and drops it")
				return
			}
		}
	}
	if x.filter != nil {
		if msg := x.progressOverflow(progressFrom, x.o.cols); msg != "" {
			rc.violate("progress", "C20:too-wide:system", "%s", msg)
			return
		}
	}
	hung := !rep.serverExited || (x.filter != nil && x.filter.IsTransferringFiles())
	if requireSuccess {
		if rc.w.StepCap {
			return
		}
		if hung && x.slowNotHung() {
			rc.inconclusive("simulated-time cap reached while data was still flowing (slow configuration, not a hang)")
			return
		}
		if hung {
			rc.violate("hang", "C01:hang", "transfer did not finish on a fault-free link: server exited=%v client transferring=%v quiesced=%v sim=%v; server tail=%q; client fail=%q; parked=%s",
				rep.serverExited, x.filter != nil && x.filter.IsTransferringFiles(), rc.w.Quiesced, rc.w.Now(), rep.serverText, rep.clientFail, vClip(rc.w.ParkedSummary(), 600))
			return
		}
		if !rep.clientOK || !rep.serverOK {
			why := rep.serverFail
			if why == "" {
				why = rep.clientFail
			}
			if i := strings.IndexByte(why, '\n'); i >= 0 {
				why = why[:i]
			}
			sig := "C01:no-success:" + vNormMsg(why)
			if x.o.srvWindows && rep.tunnelUsed {
				sig += " [windows-server+tunnel]"
			}
			rc.violate("no-success", sig, "fault-free transfer did not succeed: client ok=%v fail=%q upload err=%v immediate err=%v; server ok=%v exit=%d fail=%q tail=%q",
				rep.clientOK, vClip(rep.clientFail, 300), x.uploadErr, x.uploadErrImm, rep.serverOK, rep.serverExit, vClip(rep.serverFail, 300), rep.serverText)
			return
		}
		if o.upload && o.uploadVia == 0 && x.uploadErr != nil {
			rc.violate("no-success", "C01:upload-result", "OneTimeUpload result is an error although both sides reported success: %v", x.uploadErr)
			return
		}
	}
	if !rep.clientOK && !rep.serverOK {
		return
	}
	// safety: names reported == names written, content identical
	names := rep.clientNames
	if rep.clientOK && rep.serverOK && strings.Join(rep.clientNames, "\x00") != strings.Join(rep.serverNames, "\x00") {
		rc.violate("names", "C01:names-disagree", "client reported %q, server printed %q", rep.clientNames, rep.serverNames)
		return
	}
	if !rep.clientOK {
		names = rep.serverNames
	}
	partial := !requireSuccess && !(rep.clientOK && rep.serverOK) && len(names) < len(o.srcPaths)
	if partial {
		// under faults one side may end early with fewer files than were asked for while the other side ends
		// with an error (a damaged #NUM line): the statement is per reported file, so those are checked
		rc.w.Probe("partial-success-one-side")
	} else if len(names) != len(o.srcPaths) {
		rc.violate("names", "C01:name-count", "%d sources but %d names reported: %q", len(o.srcPaths), len(names), names)
		return
	}
	after := vSnapshot(o.dstDir)
	seen := map[string]bool{}
	for i, sp := range o.srcPaths {
		if i >= len(names) {
			break
		}
		base := filepath.Base(sp)
		n := names[i]
		if n != base && !(strings.HasPrefix(n, base+".") && vAllDigits(n[len(base)+1:])) {
			rc.violate("names", "C01:name-shape", "source %q saved under unrelated name %q", base, n)
			return
		}
		if seen[n] {
			rc.violate("names", "C01:name-dup", "two sources saved under the same name %q", n)
			return
		}
		seen[n] = true
		if err := vCompareTreeEx(sp, o.dstDir, n, before); err != nil {
			rc.violate("content", "C01:content", "%v (config %s)", err, rc.res.Scenario["config"])
			return
		}
	}
	// nothing else appeared at top level, and nothing that existed before vanished
	for _, k := range vTopLevel(after) {
		if _, was := before[k]; !was && !seen[k] && !partial && !o.othersNames[k] {
			rc.violate("extra", "C01:extra", "unexpected new entry %q in destination (reported %q)", k, names)
			return
		}
	}
	for k := range before {
		if _, ok := after[k]; !ok {
			rc.violate("extra", "C01:vanished", "pre-existing entry %q vanished", k)
			return
		}
	}
	rc.res.Nontrivial = true
	_ = time.Second
}

func vAllDigits(s string) bool {
	if s == "" {
		return false
	}
	for _, c := range s {
		if c < '0' || c > '9' {
			return false
		}
	}
	return true
}

// vNormMsg makes an error text usable as a stable signature: digits and paths removed.
func vNormMsg(s string) string {
	var b strings.Builder
	for _, f := range strings.Fields(s) {
		if strings.Contains(f, "/") && len(f) > 20 {
			f = "<path>"
		}
		for _, c := range f {
			if c >= '0' && c <= '9' {
				continue
			}
			b.WriteRune(c)
		}
		b.WriteByte(' ')
		if b.Len() > 90 {
			break
		}
	}
	return strings.TrimSpace(b.String())
}
