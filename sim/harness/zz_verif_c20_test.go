package trzsz

import (
	"encoding/json"
	"fmt"
	"math/rand"
	"os"
	"path/filepath"
	"regexp"
	"strconv"
	"strings"
	"time"

	"github.com/mattn/go-runewidth"
	"github.com/trzsz/trzsz-go/internal/verifsim"
)

func init() {
	vScenarios["C20"] = vScenarioC20
}

var vCtlSeq = regexp.MustCompile(`\x1b\[[0-9;?]*[A-Za-z]|\x1b[78]|\r|\n`)
var vPctRe = regexp.MustCompile(`(-?\d+)%`)

var vProgressNames = []string{"a.txt", "中文文件名很长很长很长很长很长很长很长很长.bin", "emoji😀😀😀😀😀😀😀😀😀😀😀😀😀😀.dat", "ééécombining.txt", "tab\tand\x07bell", strings.Repeat("long-name-", 30),
	"", " ", "ｆｕｌｌｗｉｄｔｈ", "x", "العربية.txt", "한국어파일이름.zip",
	"⭐✅⚡-starred-and-checked-⭐✅⚡-" + strings.Repeat("release-notes-", 6) + ".md", "ᄀᄁᄂᄃᄄᄅᄆᄇᄈᄉ" + strings.Repeat("ᄀᄁ", 30) + ".txt", "⏰⌚☔☕♈♿⚓⛄⛔✊✨❌❓➕⬛⭕" + strings.Repeat("x", 70),
	"report-2024-final\nappendix-tables.csv", "cr\rname.txt", "nul\x00byte.bin", "\n", "three\nshort\nlines", "del\x7fete", "中文\n中文中文中文"}

type vProgSink struct {
	rc      *runCtx
	width   *int32 // width currently in force
	maxW    int32  // largest width in force since the previous emitted line
	oldW    int32  // while a resize call has not returned yet: the width it replaces (still in force for the bar until then)
	lines   int
	bad     string
	lastPct int
	pctBad  string
	tmux    string
}

func (s *vProgSink) Write(p []byte) (int, error) {
	text := string(p)
	if s.tmux != "" {
		// un-escape tmux %output framing: prefix + octal escapes + CRLF
		text = vTmuxUnescape(strings.TrimPrefix(strings.TrimSuffix(text, "\r\n"), s.tmux))
	}
	vis := vCtlSeq.ReplaceAllString(text, "")
	if vis != "" {
		s.lines++
		w := runewidth.StringWidth(vis)
		limit := s.maxW
		if cur := *s.width; cur > limit {
			limit = cur
		}
		if s.oldW > limit {
			limit = s.oldW
		}
		if limit >= 5 && int32(w) > limit && s.bad == "" {
			s.bad = fmt.Sprintf("a progress line of display width %d was written while the widest width in force was %d: %q", w, limit, vClip(vis, 160))
		}
		for _, m := range vPctRe.FindAllStringSubmatch(vis, -1) {
			v, _ := strconv.Atoi(m[1])
			if (v < 0 || v > 100) && s.pctBad == "" {
				s.pctBad = fmt.Sprintf("percentage %d%% shown: %q", v, vClip(vis, 120))
			}
			if v < s.lastPct && s.pctBad == "" {
				s.pctBad = fmt.Sprintf("percentage went back from %d%% to %d%% within one file: %q", s.lastPct, v, vClip(vis, 120))
			}
			s.lastPct = v
		}
		s.maxW = *s.width
		if s.oldW > s.maxW {
			s.maxW = s.oldW
		}
	}
	return len(p), nil
}

func vTmuxUnescape(s string) string {
	var b strings.Builder
	for i := 0; i < len(s); i++ {
		if s[i] == '\\' && i+3 < len(s) {
			if v, err := strconv.ParseUint(s[i+1:i+4], 8, 8); err == nil {
				b.WriteByte(byte(v))
				i += 3
				continue
			}
		}
		b.WriteByte(s[i])
	}
	return b.String()
}

func vScenarioC20(rc *runCtx) {
	if rc.param("system", "0") == "1" {
		vC20System(rc)
		return
	}
	tp := rc.tape
	w := rc.w
	width := int32(1 + tp.Draw("c20.width", 500))
	if tp.Bool("c20.narrow", 400) {
		width = int32(1 + tp.Draw("c20.width.narrow", 60))
	}
	pane := int32(0)
	if tp.Bool("c20.pane", 250) {
		pane = int32(2 + tp.Draw("c20.panew", 200))
	}
	prefix := ""
	if tp.Bool("c20.tmuxprefix", 150) {
		prefix = "%output %1 "
	}
	color := ""
	if tp.Bool("c20.color", 200) {
		color = "00ffcc ff00aa"
	}
	cur := width
	if pane > 1 {
		cur = pane - 1
	}
	sink := &vProgSink{rc: rc, width: &cur, maxW: cur, tmux: prefix}
	bar := newTextProgressBar(sink, width, pane, prefix, color)
	files := 1 + tp.Pick("c20.files", 5, 2, 1)
	rc.res.ClassKey = fmt.Sprintf("w%d pane%v prefix%v color%v files%d", width/20, pane > 0, prefix != "", color != "", files)
	rc.res.Scenario["width"] = width
	rc.res.Scenario["pane"] = pane
	done := false
	resizes := 0
	// resizer / pauser
	w.Go("resizer", nil, func() {
		for n := 0; !done && n < 14; n++ {
			verifsim.Sleep(time.Duration(1+tp.Draw("c20.rgap", 900)) * time.Millisecond)
			if done {
				return
			}
			switch tp.Draw("c20.raction", 4) {
			case 0, 1:
				nw := int32(1 + tp.Draw("c20.neww", 500))
				if tp.Bool("c20.newnarrow", 500) {
					nw = int32(1 + tp.Draw("c20.neww.narrow", 40))
				}
				// the new width is in force from now on; lines already being rendered may use the old one
				if nw > sink.maxW {
					sink.maxW = nw
				}
				if cur > sink.maxW {
					sink.maxW = cur
				}
				sink.oldW = cur
				cur = nw
				bar.setTerminalColumns(nw)
				sink.oldW = 0
				resizes++
			case 2:
				bar.setPause(true)
				verifsim.Sleep(time.Duration(tp.Draw("c20.pausems", 500)) * time.Millisecond)
				bar.setPause(false)
			}
		}
	})
	// stepper with its own clock gaps
	w.Go("stepper", nil, func() {
		bar.onNum(int64(files))
		for f := 0; f < files; f++ {
			name := vProgressNames[tp.Draw("c20.name", len(vProgressNames))]
			bar.onName(name)
			sink.lastPct = 0
			var size int64
			switch tp.Pick("c20.size", 1, 3, 2, 1, 1) {
			case 0:
				size = 0
			case 1:
				size = int64(1 + tp.Draw("c20.small", 100000))
			case 2:
				size = int64(1+tp.Draw("c20.mid", 1<<30)) * 1024
			case 3:
				size = int64(1) << 62
			default:
				size = int64(-1 - tp.Draw("c20.neg", 1000)) // hostile
			}
			bar.onSize(size)
			steps := 1 + tp.Draw("c20.steps", 25)
			var step int64
			for s := 0; s < steps; s++ {
				gap := []time.Duration{0, 0, time.Millisecond, 199 * time.Millisecond, 200 * time.Millisecond, 201 * time.Millisecond, 3 * time.Second, 5 * time.Hour}[tp.Draw("c20.gap", 8)]
				if gap > 0 {
					verifsim.Sleep(gap)
				}
				switch tp.Pick("c20.stepkind", 6, 1, 1, 1, 1) {
				case 0:
					if size > 0 {
						step += size / int64(steps+1)
					} else {
						step += 1000
					}
				case 1: // repeat
				case 2: // regression
					step -= int64(tp.Draw("c20.back", 1000))
				case 3: // beyond the size
					step = size + int64(tp.Draw("c20.over", 1<<20))
					if size <= 0 {
						step = int64(1) << 40
					}
				default:
					step = int64(1)<<62 + int64(tp.Draw("c20.huge", 1000))
				}
				bar.onStep(step)
			}
			if tp.Bool("c20.done", 700) {
				bar.onDone()
			}
		}
		done = true
	})
	w.Run(func() bool { return done })
	rc.res.Scenario["lines"] = sink.lines
	rc.res.Scenario["resizes"] = resizes
	if sink.bad != "" {
		rc.violate("width", "C20:too-wide", "%s (initial width %d, pane %d, %d resizes)", sink.bad, width, pane, resizes)
		return
	}
	if sink.pctBad != "" {
		rc.violate("percentage", "C20:percentage", "%s", sink.pctBad)
		return
	}
	rc.res.Nontrivial = sink.lines > 0
}

// vC20System: the progress line inside whole transfers: a server inside a tmux pane narrower than the user's
// terminal (normal mode, or control mode through the tunnel), a terminal that is made narrower while a transfer
// is running, and a second transfer through the same client afterwards. No progress line may be wider than the
// narrowest width in force when it was written.
func vC20System(rc *runCtx) {
	tp := rc.tape
	w := rc.w
	cfg := vDrawConfig(tp, false)
	cfg.quiet = false
	cfg.trigVersion = ""
	cfg.timeout = 60
	cfg.bufSize = []string{"1K", "4k", ""}[tp.Draw("c20s.buf", 3)]
	cfg.srvTmux = []string{"", "normal", "control"}[tp.Pick("c20s.stmux", 2, 2, 2)]
	if cfg.srvTmux == "control" {
		cfg.tunnel = true // control-mode triggers are only taken through the tunnel
	}
	// relays in between, some of them inside tmux: a pane nested in another is never wider than the one around it
	if cfg.srvTmux != "control" {
		cfg.relays = tp.Pick("c20s.relays", 3, 2, 1)
		for i := 0; i < cfg.relays; i++ {
			cfg.relayTmux = append(cfg.relayTmux, []string{"", "normal"}[tp.Pick("c20s.rtmux", 1, 2)])
		}
	}
	// a peer may announce a pane width no pane has: the bar then goes by the terminal
	hugePane := tp.Bool("c20s.hugepane", 80)
	if hugePane {
		cfg.srvTmux, cfg.relays, cfg.relayTmux, cfg.tunnel, cfg.fork = "", 0, nil, false, false
	}
	src := filepath.Join(rc.dir, "src")
	dst := filepath.Join(rc.dir, "dst")
	dst2 := filepath.Join(rc.dir, "dst2")
	os.MkdirAll(dst, 0755)
	os.MkdirAll(dst2, 0755)
	resume := tp.Bool("c20s.resume", 300)
	if resume {
		cfg.overwrite = true
	}
	spec := vGenSources(rc, src, 2, cfg.dirMode, 60000, !cfg.overwrite)
	if resume {
		// one more source, long enough for many redraws on a line of limited capacity
		big := make([]byte, 150000+tp.Draw("c20s.bigsize", 250000)) // incompressible: its length is what crosses the line
		rand.New(rand.NewSource(int64(tp.Draw("c20s.bigseed", 1<<30)))).Read(big)
		bp := filepath.Join(src, "resumed-big.bin")
		vWriteFile(bp, big)
		// first in line (or alone): the very first drawing of a bar is never held back by the redraw interval
		if tp.Bool("c20s.bigalone", 300) {
			spec.paths = []string{bp}
		} else {
			spec.paths = append([]string{bp}, spec.paths...)
		}
		cfg.bufSize = []string{"1K", "4k"}[tp.Draw("c20s.resumebuf", 2)]
		// the destination holds the beginning of each file already (an interrupted earlier transfer): the bar
		// starts from there and still only moves forward
		for _, p := range spec.paths {
			if st, err := os.Stat(p); err == nil && st.Mode().IsRegular() && st.Size() > 1 {
				b, _ := os.ReadFile(p)
				vTryWrite(filepath.Join(dst, filepath.Base(p)), b[:1+tp.Draw("c20s.prefix", len(b)-1)])
			}
		}
		rc.fault("destination-holds-a-prefix")
	}
	o := cfg.opts()
	o.srcPaths, o.dstDir = spec.paths, dst
	o.cols = int32([]int{120, 100, 80, 200}[tp.Draw("c20s.cols", 4)])
	if cfg.relays > 0 {
		inner := int(o.cols)
		if cfg.srvTmux != "" {
			o.srvPaneCols = []int{77, 40, 50, 25}[tp.Draw("c20s.srvpane", 4)]
			inner = o.srvPaneCols
		}
		// from the server outwards: each pane at least as wide as what it shows, at most the terminal
		o.relayPaneCols = make([]int, cfg.relays)
		for i := cfg.relays - 1; i >= 0; i-- {
			pw := inner + tp.Draw("c20s.relaypane", 40)
			if pw > int(o.cols) {
				pw = int(o.cols)
			}
			o.relayPaneCols[i] = pw
			if cfg.relayTmux[i] != "" {
				inner = pw
			}
		}
	}
	o.profile = transportProfile{segPm: 200, coalPm: 100, latPm: 300, latMax: 30 * time.Millisecond, bytesPerMs: []int{0, 40, 10, 40, 10}[tp.Draw("c20s.bw", 5)]}
	o.profile.serial = tp.Bool("c20s.serial", 500) // a line of that capacity: a file then takes long enough for many redraws
	if resume {
		o.profile.serial = true
		o.profile.bytesPerMs = []int{40, 100, 300}[tp.Draw("c20s.resumebw", 3)]
	}
	o.simCap = 30 * time.Minute
	rc.res.ClassKey = fmt.Sprintf("system %s cols%d", cfg.key(), o.cols)
	rc.res.Scenario["config"] = cfg.key()
	x := newXferWorld(rc, o)
	armed := vArmAfterCfg(x)
	cols := o.cols
	resizedAt := -1
	var hooks []*bool
	if hugePane {
		pw := []string{"10001", "20000", "65536", "1000000", "2147483647"}[tp.Draw("c20s.hugepanew", 5)]
		ed := vLineEdit(func(typ, payload string, nth int) (string, bool) {
			if typ != "CFG" {
				return "", false
			}
			raw, err := vDecode(payload)
			if err != nil {
				return "", false
			}
			var m map[string]any
			if json.Unmarshal(raw, &m) != nil || m == nil {
				return "", false
			}
			m["tmux_pane_width"] = json.RawMessage(pw)
			js, _ := json.Marshal(m)
			rc.fault("implausible-pane-width-announced")
			return vEncode(js), true
		})
		prev := x.down[0].Mangle
		x.down[0].Mangle = func(l *verifsim.Link, d []byte) []byte {
			if prev != nil {
				d = prev(l, d)
			}
			return ed(l, d)
		}
	}
	// (a terminal narrower than the tmux pane it shows cannot exist: the resize is for paths without any tmux)
	anyRelayTmux := false
	for _, m := range cfg.relayTmux {
		anyRelayTmux = anyRelayTmux || m != ""
	}
	if cfg.srvTmux == "" && !anyRelayTmux && tp.Bool("c20s.resize", 700) {
		newCols := int32(20 + tp.Draw("c20s.newcols", 60))
		hooks = append(hooks, vOnChunk(rc, x, armed, 250, func() {
			rc.fault("terminal-resized-during-transfer")
			x.filter.SetTerminalColumns(newCols)
			cols = newCols
			resizedAt = x.term.NSentInt()
		}))
	}
	// the terminal may also change while the stop/continue question is open; the bar goes on in the new width
	if cfg.srvTmux == "" && !anyRelayTmux && resizedAt < 0 && !hugePane && tp.Bool("c20s.pauseresize", 150) {
		newCols := int32(20 + tp.Draw("c20s.pausecols", 60))
		hooks = append(hooks, vOnChunk(rc, x, armed, 250, func() {
			x.paused = true
			w.Go("user", x.client, func() {
				x.kbd.Write([]byte{0x03})
				verifsim.Sleep(300 * time.Millisecond)
				if !x.filter.IsTransferringFiles() {
					return
				}
				rc.fault("terminal-resized-while-question-open")
				x.filter.SetTerminalColumns(newCols)
				cols = newCols
				verifsim.Sleep(300 * time.Millisecond)
				x.typeKeys("jj", 20*time.Millisecond)
				x.typeKeys("\r", 20*time.Millisecond)
				resizedAt = x.term.NSentInt()
			})
		}))
	}
	before := vSnapshot(dst)
	x.start()
	w.Run(x.finished)
	rep := x.report()
	from := x.termMark
	if resizedAt >= 0 {
		// only what was written after the terminal changed is judged against the new width; a line laid out just
		// before the change may still be on its way to the terminal at that instant: the first redraw after the
		// change is not judged either
		from = resizedAt + 1
		term, _, evs := x.term.Snapshot()
		for _, e := range evs {
			if e.Off >= from && e.Off+e.N <= len(term) && vProgressPct.Match(term[e.Off:e.Off+e.N]) {
				from = e.Off + e.N // the first progress redraw after the change
				break
			}
		}
	}
	colsNow := cols
	x.o.cols = colsNow
	vCheckFidelityFrom(rc, x, rep, before, true, from)
	if rc.res.Class != "ok" {
		return
	}
	// a second transfer through the same client: its bar goes by the width in force now (what did not happen
	// during the first transfer does not happen during the second)
	for _, h := range hooks {
		*h = true
	}
	x.settle(11 * time.Second)
	o2 := cfg.opts()
	o2.srcPaths, o2.dstDir = spec.paths, dst2
	before2 := vSnapshot(dst2)
	x.nextTransfer(o2)
	x.o.cols = colsNow
	w.Run(x.finished)
	rep2 := x.report()
	vCheckFidelityFrom(rc, x, rep2, before2, true, x.termMark)
	if rc.res.Class == "violation" {
		rc.res.Msg = "second transfer through the same client: " + rc.res.Msg
	}
}
