package trzsz

import (
	"bytes"
	"fmt"
	"net"
	"os"
	"path/filepath"
	"strings"
	"time"

	"github.com/trzsz/trzsz-go/internal/verifsim"
)

func init() {
	vScenarios["C17"] = vScenarioC17
}

type vAttacker struct {
	kind   string
	conn   *verifsim.Conn
	target string
	at     time.Duration
	sentOK bool // presented exactly the right greeting in one write
}

// vScenarioC17: only the authenticated tunnel connection is ever used, and only one.
func vScenarioC17(rc *runCtx) {
	tp := rc.tape
	w := rc.w
	cfg := vDrawConfig(tp, false)
	cfg.tunnel = true
	cfg.timeout = 20
	cfg.trigVersion = ""
	cfg.protocol = 0
	cfg.bufSize = []string{"", "4k"}[tp.Draw("c17.buf", 2)]
	cfg.relays = tp.Pick("c17.relays", 3, 1)
	src := filepath.Join(rc.dir, "src")
	dst := filepath.Join(rc.dir, "dst")
	os.MkdirAll(dst, 0755)
	spec := vGenSources(rc, src, 3, cfg.dirMode, 60000, !cfg.overwrite)
	o := cfg.opts()
	o.srcPaths = spec.paths
	o.dstDir = dst
	o.profile = transportProfile{segPm: []int{0, 200}[tp.Draw("c17.seg", 2)], coalPm: 100, latPm: 200, latMax: 20 * time.Millisecond,
		bytesPerMs: []int{0, 100}[tp.Draw("c17.bw", 2)]}
	o.simCap = 20 * time.Minute
	if cfg.relays > 0 && tp.Bool("c17.relayslow", 300) {
		// the relay's own connection towards the server comes late: around the client's grace period or beyond
		o.relayConnectDelay = time.Duration(600+tp.Draw("c17.relaydelay", 1200)) * time.Millisecond
		if tp.Bool("c17.relayslowlink", 600) {
			// ... while the in-band handshake is still on its way over a slow path
			o.profile.latPm, o.profile.latMax, o.profile.coalPm = 1000, time.Duration(100+tp.Draw("c17.slowlat", 300))*time.Millisecond, 600
		}
		rc.res.Scenario["relay_connect_delay"] = o.relayConnectDelay.String()
	}
	if cfg.relays > 0 && tp.Bool("c17.relayconndead", 250) {
		// the relays' own connectors towards the next machine do not work: each relay finds that out before it
		// answers whoever connected to it, so the client falls back in-band
		o.relayConnDead = true
		rc.fault("relay-connector-dead")
	}
	x := newXferWorld(rc, o)
	// connector outcome for the genuine client
	outcome := []string{"ok", "refuse", "late", "dead", "no-listener", "hang", "slow-answer"}[tp.Pick("c17.connector", 5, 1, 1, 1, 1, 1, 1)]
	if outcome == "no-listener" {
		o.noListen = true
	}
	genuine0 := x.connector("client", 0)
	// the client's writes into the tunnel may be slow to return (the bytes are on their way, the call is not back
	// yet); terminal output that arrives in-band meanwhile is no part of the transfer
	slowTunnelWrite := cfg.relays == 0 && tp.Bool("c17.slowtunnelwrite", 200)
	slowLag := time.Duration(20+tp.Draw("c17.slowtunnellag", 200)) * time.Millisecond
	genuine := func(port int) net.Conn {
		c := genuine0(port)
		if vc, ok := c.(*verifsim.Conn); ok && vc != nil && slowTunnelWrite {
			vc.Wr.ReturnLag = slowLag
			injected := false
			prev := vc.Wr.OnWrite
			vc.Wr.OnWrite = func(l *verifsim.Link, d []byte) {
				if prev != nil {
					prev(l, d)
				}
				if !injected && bytes.Contains(d, []byte("#ACT:")) {
					injected = true
					rc.fault("terminal-output-in-band-while-ACT-is-written-to-tunnel")
					w.Go("inband.broadcast", nil, func() {
						x.down[0].Write([]byte("\r\nBroadcast message from root@host (pts/1):\r\n\r\nthe system is going down for maintenance\r\n"))
					})
				}
			}
		}
		return c
	}
	x.clientConnector = func(port int) net.Conn {
		switch outcome {
		case "refuse":
			verifsim.Yield("connector.refuse")
			return nil
		case "late":
			verifsim.Sleep(time.Duration(1100+tp.Draw("c17.late", 2000)) * time.Millisecond)
			return genuine(port)
		case "hang":
			// a connect that neither succeeds nor fails for minutes (packets dropped on the way)
			verifsim.Sleep(10 * time.Minute)
			return nil
		case "dead":
			c := genuine(port)
			if c != nil {
				c.Close()
			}
			return c
		case "slow-answer":
			// the connection is there at once, but what the other end says on it takes longer than the grace
			// period to arrive (a slow port forward): the other end has adopted it, this end gives it up
			c := genuine(port)
			if vc, ok := c.(*verifsim.Conn); ok && vc != nil {
				vc.R.StallUntil = rc.w.Now() + time.Duration(1300+tp.Draw("c17.slowanswer", 2500))*time.Millisecond
			}
			return c
		}
		return genuine(port)
	}
	rc.res.Scenario["config"] = cfg.key()
	rc.res.Scenario["flags"] = strings.Join(o.flags, " ")
	rc.res.Scenario["connector"] = outcome

	// attackers
	nAtt := tp.Pick("c17.natt", 2, 3, 2, 1)
	var atts []*vAttacker
	kinds := []string{"wrong-text", "wrong-id", "prefix-only", "right-plus-extra", "split-greeting", "silent", "flood", "right-second", "id-shortened", "id-lengthened", "id-neighbour"}
	for i := 0; i < nAtt; i++ {
		a := &vAttacker{kind: kinds[tp.Draw("c17.kind", len(kinds))]}
		a.at = time.Duration(tp.Draw("c17.at", 1500)) * time.Millisecond
		if tp.Bool("c17.early", 400) {
			a.at = time.Duration(tp.Draw("c17.at.early", 5)) * time.Millisecond
		}
		a.target = "server"
		if cfg.relays > 0 && tp.Bool("c17.target", 500) {
			a.target = "relay"
		}
		atts = append(atts, a)
	}
	var kindsUsed []string
	for _, a := range atts {
		kindsUsed = append(kindsUsed, a.kind+"@"+a.target)
	}
	rc.res.Scenario["attackers"] = kindsUsed
	rc.res.ClassKey = fmt.Sprintf("%s conn=%s att=%v", cfg.key(), outcome, kindsUsed)
	// the greeting is derived from the id and port printed in the trigger
	var trigID string
	var trigPort int
	x.downLast().OnWrite = func(l *verifsim.Link, d []byte) {
		if i := bytes.Index(d, []byte("::TRZSZ:TRANSFER:")); i >= 0 && trigID == "" {
			parts := strings.Split(strings.TrimSpace(string(d[i:])), ":")
			// ["", "", "TRZSZ", "TRANSFER", mode, version, id, port]
			if len(parts) >= 8 {
				trigID = parts[6]
				fmt.Sscan(parts[7], &trigPort)
			}
		}
	}
	for i, a := range atts {
		a := a
		i := i
		w.Go(fmt.Sprintf("attacker%d", i), nil, func() {
			// wait for the target's listener
			var ln *verifsim.Listener
			host := x.server
			for k := 0; k < 3000 && ln == nil; k++ {
				if a.target == "relay" && len(x.relayP) > 0 {
					host = x.relayP[0]
				}
				ln = w.ListenerOf(host)
				if ln == nil || trigID == "" {
					ln = nil
					verifsim.Sleep(time.Millisecond)
				}
			}
			if ln == nil {
				return
			}
			verifsim.Sleep(a.at)
			port := ln.Port()
			c := w.DialHost(host, port, fmt.Sprintf("att%d.%s", i, a.kind), nil)
			if c == nil {
				rc.w.Probe("attacker-refused")
				return
			}
			a.conn = c
			rc.fault("attacker-" + a.kind)
			uid := trigID
			if len(uid) > 2 {
				uid = uid[:len(uid)-2]
			}
			hello := fmt.Sprintf("::TRZSZ::CLIENT::HELLO::%s:%d", uid, port)
			switch a.kind {
			case "wrong-text":
				c.Write([]byte("GET / HTTP/1.0\r\n\r\n"))
			case "wrong-id":
				c.Write([]byte(fmt.Sprintf("::TRZSZ::CLIENT::HELLO::%s:%d", "99999999999", port)))
			case "id-shortened":
				// the id without its trailing 0/1/2 digits (or without its last digit): a different id
				short := strings.TrimRight(uid, "012")
				if short == uid && len(uid) > 1 {
					short = uid[:len(uid)-1]
				}
				c.Write([]byte(fmt.Sprintf("::TRZSZ::CLIENT::HELLO::%s:%d", short, port)))
			case "id-lengthened":
				c.Write([]byte(fmt.Sprintf("::TRZSZ::CLIENT::HELLO::%s%s:%d", uid, []string{"0", "1", "2", "00", "20"}[i%5], port)))
			case "id-neighbour":
				// an id a millisecond away
				nb := []byte(uid)
				if n := len(nb); n > 0 {
					nb[n-1] = '0' + (nb[n-1]-'0'+1)%10
				}
				c.Write([]byte(fmt.Sprintf("::TRZSZ::CLIENT::HELLO::%s:%d", nb, port)))
			case "prefix-only":
				c.Write([]byte(hello[:len(hello)-3]))
			case "right-plus-extra":
				c.Write([]byte(hello + "X"))
			case "split-greeting":
				c.Write([]byte(hello[:10]))
				verifsim.Sleep(5 * time.Millisecond)
				c.Write([]byte(hello[10:]))
			case "silent":
			case "flood":
				for k := 0; k < 20; k++ {
					if _, err := c.Write([]byte("#fail:" + vEncode([]byte("injected by attacker")) + "\n#SUCC:1\n")); err != nil {
						break
					}
					verifsim.Sleep(10 * time.Millisecond)
				}
			case "right-second":
				// only meaningful once the genuine connection is in place: wait for traffic on it
				inPlace := false
				for k := 0; k < 2000 && !inPlace; k++ {
					if len(x.tunnelConns) > 0 && x.tunnelConns[0].Wr.NSentTotal() > 100 && x.tunnelConns[0].R.NSentTotal() > 60 {
						inPlace = true
					} else {
						verifsim.Sleep(time.Millisecond)
					}
				}
				if !inPlace {
					return // no genuine tunnel: whoever knows the greeting is by definition the genuine party
				}
				c.Write([]byte(hello))
				a.sentOK = true
			}
			// whatever the answer, keep talking for a while: nothing of this may reach the transfer
			verifsim.Sleep(20 * time.Millisecond)
			for k := 0; k < 5; k++ {
				if _, err := c.Write([]byte("#fail:" + vEncode([]byte("injected after greeting")) + "\n")); err != nil {
					break
				}
				verifsim.Sleep(15 * time.Millisecond)
			}
		})
	}
	// in-band bytes (keys pressed, stray output) while the handshake is still travelling over the tunnel: with a
	// relay in the path they pass the relay's own handshake machinery and must stay out of the tunnel
	earlyInband := cfg.relays > 0 && tp.Bool("c17.earlyinband", 500)
	if earlyInband {
		// the moment both ends agree: the server, having read the ACT that came over the tunnel, writes its CFG
		// into the tunnel. The relay has not seen that CFG yet and is still in its own handshake.
		earlyN := 1 + tp.Draw("c17.earlyn", 3)
		w.Go("inband-early", nil, func() {
			for k := 0; k < 4000; k++ {
				if len(x.tunnelConns) >= cfg.relays+1 {
					last := x.tunnelConns[len(x.tunnelConns)-1]
					done := false
					prev := last.R.OnWrite
					last.R.OnWrite = func(l *verifsim.Link, d []byte) {
						if prev != nil {
							prev(l, d)
						}
						if !done && bytes.Contains(d, []byte("#CFG:")) {
							done = true
							for i := 0; i < earlyN; i++ {
								rc.fault("inband-during-handshake")
								x.up[0].Inject([]byte(fmt.Sprintf("inband-keys-%d ", i)))
							}
						}
					}
					return
				}
				if x.server.Exited {
					return
				}
				verifsim.Sleep(time.Millisecond)
			}
		})
	}
	// in-band injection once the tunnel carries traffic
	injected := false
	w.Go("inband", nil, func() {
		for k := 0; k < 4000; k++ {
			if len(x.tunnelConns) > 0 && x.tunnelConns[0].Wr.NSentTotal() > 300 && x.tunnelConns[0].R.NSentTotal() > 100 {
				if tp.Bool("c17.inband", 700) {
					injected = true
					rc.fault("inband-injection")
					x.upLast().Inject([]byte("#fail:" + vEncode([]byte("in-band injection towards the server")) + "\n"))
					x.down[0].Inject([]byte("#fail:" + vEncode([]byte("in-band injection towards the client")) + "\n"))
				}
				return
			}
			if x.server.Exited {
				return
			}
			verifsim.Sleep(time.Millisecond)
		}
	})
	before := vSnapshot(dst)
	x.start()
	w.Run(x.finished)
	rep := x.report()
	rc.res.Scenario["tunnel_used"] = rep.tunnelUsed
	rc.res.Scenario["inband_injected"] = injected
	rc.res.Scenario["client_fail"] = vClip(rep.clientFail, 120)
	rc.res.Scenario["server_fail"] = vClip(rep.serverFail, 120)
	if w.StepCap {
		return
	}
	// the transfer result is unaffected
	vCheckFidelity(rc, x, rep, before, true)
	if rc.res.Class == "violation" {
		rc.res.Sig = strings.Replace(rc.res.Sig, "C01:", "C17:", 1)
		rc.res.Msg = fmt.Sprintf("connector=%s attackers=%v inband=%v: %s", outcome, kindsUsed, injected, rc.res.Msg)
		return
	}
	if (outcome == "refuse" || outcome == "no-listener" || outcome == "dead") && rep.tunnelUsed && cfg.relays == 0 {
		rc.violate("adoption", "C17:tunnel-without-connection", "the client's connector outcome was %q but the transfer claims to have used a tunnel", outcome)
		return
	}
	// a transfer that runs in-band (the client said so in its ACT) is configured like one without any tunnel: binary
	// mode only if the server was asked for it, and then with its escape table
	{
		upSent, _, _ := x.up[0].Snapshot()
		if x.markUp <= len(upSent) {
			upSent = upSent[x.markUp:]
		}
		if m := vFindMsg(vParseWire(upSent, false), "ACT"); m != nil && rep.cfg != nil {
			if a, err := vDecodeJSON(m.Payload); err == nil {
				tun, _ := a["tunnel"].(bool)
				bin, _ := rep.cfg["binary"].(bool)
				esc := rep.cfg["escape_chars"]
				// (only what the user sends upwards is escaped: tsz announces no table)
				if !tun && bin && (!cfg.binary || (esc == nil && cfg.upload)) {
					rc.violate("fallback", "C17:in-band-configured-as-tunnel", "connector=%s: the client announced an in-band transfer (no tunnel) but the server configured it like a tunnel transfer: binary=%v, escape table %v, although it was started with %q; ACT %v; CFG %v", outcome, bin, esc, strings.Join(o.flags, " "), a, rep.cfg)
					return
				}
			}
		}
	}
	// attackers: no answer, connection closed (a connection made in the last instant of the transfer gets the
	// time it takes the accept loop to look at it)
	x.settle(300 * time.Millisecond)
	for i, a := range atts {
		if a.conn == nil {
			continue
		}
		got, _, _ := a.conn.R.Snapshot() // what the listener side wrote to the attacker
		if a.sentOK {
			// the right greeting presented second may be answered, but carries no transfer traffic
			if bytes.Contains(got, []byte("#")) {
				rc.violate("adoption", "C17:second-connection-used", "attacker %d (%s) presented the right greeting after the genuine connection and received protocol traffic: %q", i, a.kind, vClipB(got, 80))
				return
			}
			continue
		}
		if len(got) > 0 {
			rc.violate("adoption", "C17:answered:"+a.kind, "attacker %d (%s at %s) did not present the greeting but received an answer: %q", i, a.kind, a.target, vClipB(got, 80))
			return
		}
		if a.kind != "silent" && a.kind != "right-second" && !a.conn.R.WriterClosed() && !a.conn.Wr.ReaderClosed() {
			rc.violate("adoption", "C17:not-closed:"+a.kind, "attacker %d (%s at %s) presented a wrong greeting and its connection was left open (now %v, attacker sent %d bytes, unread by the listener side %d, server exited %v, parked %s)", i, a.kind, a.target, w.Now(), a.conn.Wr.NSentTotal(), a.conn.Wr.Pending(), x.server.Exited, vClip(w.ParkedSummary(), 300))
			return
		}
	}
	// no tunnel within the grace period: the transfer proceeds in-band then, not when the connector is done
	if outcome == "late" || outcome == "hang" {
		var trigAt, actAt time.Duration = -1, -1
		dn, _, dev := x.down[0].Snapshot()
		for _, e := range dev {
			if trigAt < 0 && e.Off+e.N <= len(dn) && bytes.Contains(dn[e.Off:e.Off+e.N], []byte("::TRZSZ:TRANSFER:")) {
				trigAt = e.T
			}
		}
		up, _, uev := x.up[0].Snapshot()
		for _, e := range uev {
			if actAt < 0 && e.Off+e.N <= len(up) && bytes.Contains(up[e.Off:e.Off+e.N], []byte("#ACT:")) {
				actAt = e.T
			}
		}
		rc.res.Scenario["trigger_at"], rc.res.Scenario["act_at"] = trigAt.String(), actAt.String()
		if trigAt >= 0 && actAt >= 0 && actAt-trigAt > 2500*time.Millisecond {
			rc.violate("grace", "C17:grace-period-ignored:"+outcome, "the connector was still busy after the one-second grace period (%s); the client sent its ACT %v after the trigger instead of falling back in-band at once", outcome, actAt-trigAt)
			return
		}
		if actAt >= 0 {
			rc.w.Probe("in-band-after-grace")
		}
	}
	// exactly one connection per listener carried protocol traffic from the listener side
	carriers := 0
	for _, c := range x.tunnelConns {
		if c.Peer != nil {
			sent, _, _ := c.Peer.Wr.Snapshot()
			if bytes.Contains(sent, []byte("#")) {
				carriers++
			}
		}
	}
	if want := 1 + cfg.relays; rep.tunnelUsed && carriers > want {
		rc.violate("adoption", "C17:several-adopted", "%d connections carried protocol traffic, expected at most %d", carriers, want)
		return
	}
	if rep.tunnelUsed {
		rc.w.Probe("tunnel-used")
	} else {
		rc.w.Probe("fell-back-in-band")
	}
	rc.res.Probes = rc.w.Probes
	rc.res.Nontrivial = true
}
