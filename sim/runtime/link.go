package verifsim

import (
	"errors"
	"fmt"
	"io"
	"net"
	"syscall"
	"time"
)

type seg struct {
	data   []byte
	at     time.Duration
	sealed bool // never merged with a later chunk
}

// LinkEvent records one write (as issued by the writer) with its simulated time and step.
type LinkEvent struct {
	T    time.Duration
	Step int
	Off  int // offset in Sent
	N    int
}

// Link is a unidirectional in-memory byte pipe. Written chunks are re-cut into segments at
// tape-chosen points (reads never return more than one segment), get a tape-chosen latency
// (order preserved), can be mangled/dropped by a fault hook, and are recorded.
type Link struct {
	W    *World
	Name string

	segs    []*seg
	wake    chan struct{}
	eof     bool  // writer side closed
	rclosed bool  // reader side closed
	werr    error // writes fail with this
	lastAt  time.Duration

	// transport behaviour (legal, not faults)
	SegPm      int // permille of chunks that get cut
	MaxCuts    int
	ReadMax    int // a read returns at most this many bytes (a small pty or pipe buffer); 0: as many as asked for
	CoalescePm int
	LatPm      int
	LatMax     time.Duration
	BytesPerMs int                    // 0 = unlimited
	LonePm     int                    // with SegPm: per mille of cut writes in which one byte from the middle arrives in a read of its own
	LoneByte   int                    // with LonePm: prefer this byte value (-1: any)
	ReturnLag  time.Duration          // the writer gets its call back this long after the bytes were queued (a slow pty or socket write: the other side may have the bytes, and answer, before Write returns)
	PipeCap    int                    // with Serial: bytes that may wait in front of the line before the writer blocks (0: unbounded)
	Blocked    int                    // writes that had to wait for room in the pipe
	Serial     bool                   // with BytesPerMs: writes queue up behind each other (a line of that capacity) instead of each being delayed by its own size only
	Atomic     func(data []byte) bool // chunks for which this holds are never cut (e.g. a trigger line: detectors work per read)
	SealAtomic bool                   // atomic chunks are also never merged with their neighbours

	// faults
	Mangle     func(l *Link, data []byte) []byte // nil result = chunk withheld
	StallUntil time.Duration
	// WriteBlockUntil: writes block (the writer sleeps) until this simulated time
	WriteBlockUntil time.Duration
	Discard         bool

	// record
	Record    bool
	Sent      []byte // bytes as written by the writer
	Deliv     []byte // bytes as queued for the reader (after faults)
	Events    []LinkEvent
	NSent     int64
	NDeliv    int64
	NRead     int64
	Writes    int
	Cuts      int
	Coalesced int
	Delayed   int
	OnWrite   func(l *Link, data []byte) // passive tap, runs in the writer's task before faults
}

func (w *World) NewLink(name string) *Link {
	l := &Link{W: w, Name: name, wake: make(chan struct{}), Record: true, MaxCuts: 3, LoneByte: -1}
	w.mu.Lock()
	w.links = append(w.links, l)
	w.mu.Unlock()
	return l
}

// Livelock looks for a link whose last n writes are byte-identical and were all made within span of simulated
// time: a party saying the same thing over and over without the clock moving. Returns "" if there is none.
func (w *World) Livelock(n int, span time.Duration) string {
	w.mu.Lock()
	defer w.mu.Unlock()
	for _, l := range w.links {
		ev := l.Events
		if len(ev) < n {
			continue
		}
		last := ev[len(ev)-n:]
		if last[n-1].T-last[0].T > span {
			continue
		}
		first := l.Sent[last[0].Off : last[0].Off+last[0].N]
		same := true
		for _, e := range last[1:] {
			if e.N != len(first) || string(l.Sent[e.Off:e.Off+e.N]) != string(first) {
				same = false
				break
			}
		}
		if same {
			q := string(first)
			if len(q) > 40 {
				q = q[:40]
			}
			return fmt.Sprintf("link %s: the last %d writes are all %q, within %v of simulated time", l.Name, n, q, last[n-1].T-last[0].T)
		}
	}
	return ""
}

func (l *Link) signalLocked() {
	close(l.wake)
	l.wake = make(chan struct{})
}

func (l *Link) Write(p []byte) (int, error) {
	n, err := l.write(p)
	if err == nil && l.ReturnLag > 0 && len(p) > 0 {
		Sleep(l.ReturnLag)
	}
	return n, err
}

func (l *Link) write(p []byte) (int, error) {
	Yield("lw:" + l.Name)
	w := l.W
	// back-pressure: the reader is not draining (a full pipe): the writer blocks until it does
	w.mu.Lock()
	until := l.WriteBlockUntil
	w.mu.Unlock()
	if d := until - w.Now(); d > 0 {
		Sleep(d)
	}
	// a line of limited capacity with a pipe of PipeCap bytes in front of it: the writer blocks while more than
	// that is waiting to go out
	w.mu.Lock()
	var wait time.Duration
	if l.Serial && l.BytesPerMs > 0 && l.PipeCap > 0 {
		wait = l.lastAt - w.Now() - time.Duration(l.PipeCap/l.BytesPerMs)*time.Millisecond
	}
	w.mu.Unlock()
	if wait > 0 {
		l.Blocked++
		Sleep(wait)
	}
	w.mu.Lock()
	if l.werr != nil {
		err := l.werr
		w.mu.Unlock()
		return 0, err
	}
	if l.rclosed {
		w.mu.Unlock()
		return 0, syscall.EPIPE
	}
	if len(p) == 0 {
		w.mu.Unlock()
		return 0, nil
	}
	data := append([]byte(nil), p...)
	l.Writes++
	l.NSent += int64(len(p))
	if l.Record {
		l.Events = append(l.Events, LinkEvent{T: w.Now(), Step: w.Steps, Off: len(l.Sent), N: len(p)})
		l.Sent = append(l.Sent, p...)
	}
	tap, mangle := l.OnWrite, l.Mangle
	w.mu.Unlock()
	if tap != nil {
		tap(l, data)
	}
	if mangle != nil {
		data = mangle(l, data)
	}
	w.mu.Lock()
	defer w.mu.Unlock()
	if l.Discard || len(data) == 0 {
		return len(p), nil
	}
	now := w.Now()
	at := now
	if l.LatPm > 0 && l.LatMax > 0 && w.Tape.Bool("lat", l.LatPm) {
		at += time.Duration(1+w.Tape.Draw("latv", 1000)) * l.LatMax / 1000
		l.Delayed++
	}
	if l.BytesPerMs > 0 {
		if l.Serial && l.lastAt > at {
			// a line of that capacity: this write's bytes go out after the ones already queued
			at = l.lastAt
		}
		at += time.Duration(len(data)/l.BytesPerMs) * time.Millisecond
	}
	if l.StallUntil > at {
		at = l.StallUntil
	}
	if at < l.lastAt {
		at = l.lastAt
	}
	l.lastAt = at
	l.NDeliv += int64(len(data))
	if l.Record {
		l.Deliv = append(l.Deliv, data...)
	}
	atomic := l.Atomic != nil && l.Atomic(data)
	// coalesce with the previous undelivered segment
	if n := len(l.segs); n > 0 && l.CoalescePm > 0 && !atomic && !l.segs[n-1].sealed && w.Tape.Bool("coal", l.CoalescePm) {
		last := l.segs[n-1]
		last.data = append(last.data, data...)
		last.at = at
		l.Coalesced++
		l.signalLocked()
		return len(p), nil
	}
	cuts := 0
	if l.SegPm > 0 && len(data) > 1 && !atomic {
		cuts = w.Tape.Rare("cuts", l.MaxCuts+1, l.SegPm)
	}
	if cuts > 0 && l.LonePm > 0 && len(data) > 2 && w.Tape.Bool("cutlone", l.LonePm) {
		// one byte somewhere in the middle arrives in a read of its own
		p := 1 + w.Tape.Draw("cutlonepos", len(data)-2)
		if l.LoneByte >= 0 {
			// ... preferably a particular byte value, if the write contains it
			if idxs := indexAll(data[1:len(data)-1], byte(l.LoneByte)); len(idxs) > 0 {
				p = 1 + idxs[w.Tape.Draw("cutlonewhich", len(idxs))]
			}
		}
		l.segs = append(l.segs, &seg{data: data[:p:p], at: at}, &seg{data: data[p : p+1 : p+1], at: at})
		data = data[p+1:]
		l.Cuts += 2
		cuts--
	}
	for cuts > 0 && len(data) > 1 {
		// bias towards tiny first segments now and then
		var k int
		if w.Tape.Bool("cut1", 200) {
			k = 1
		} else {
			k = 1 + w.Tape.Draw("cutpos", len(data)-1)
		}
		l.segs = append(l.segs, &seg{data: data[:k:k], at: at})
		data = data[k:]
		cuts--
		l.Cuts++
	}
	l.segs = append(l.segs, &seg{data: data, at: at, sealed: atomic && l.SealAtomic})
	l.signalLocked()
	return len(p), nil
}

func (l *Link) Read(p []byte) (int, error) {
	for {
		Yield("lr:" + l.Name)
		w := l.W
		w.mu.Lock()
		if l.rclosed {
			w.mu.Unlock()
			return 0, net.ErrClosed
		}
		var wait time.Duration = -1
		if len(l.segs) > 0 {
			s := l.segs[0]
			now := w.Now()
			if s.at <= now {
				if l.ReadMax > 0 && len(p) > l.ReadMax {
					p = p[:l.ReadMax]
				}
				n := copy(p, s.data)
				s.data = s.data[n:]
				if len(s.data) == 0 {
					l.segs = l.segs[1:]
				}
				l.NRead += int64(n)
				w.mu.Unlock()
				return n, nil
			}
			wait = s.at - now
		} else if l.eof {
			w.mu.Unlock()
			return 0, io.EOF
		}
		wake := l.wake
		w.mu.Unlock()
		if wait > 0 {
			tm := time.NewTimer(wait)
			select {
			case <-wake:
				tm.Stop()
			case <-tm.C:
			}
		} else {
			<-wake
		}
	}
}

// Close closes the writing side: the reader drains what is queued and then sees EOF.
func (l *Link) Close() error {
	Yield("lc:" + l.Name)
	l.W.mu.Lock()
	defer l.W.mu.Unlock()
	if !l.eof {
		l.eof = true
		l.signalLocked()
	}
	return nil
}

func (l *Link) closeNoYield() {
	l.W.mu.Lock()
	defer l.W.mu.Unlock()
	if !l.eof {
		l.eof = true
		l.signalLocked()
	}
}

// CloseRead makes pending and future reads fail and future writes return EPIPE.
func (l *Link) CloseRead() {
	l.W.mu.Lock()
	defer l.W.mu.Unlock()
	if !l.rclosed {
		l.rclosed = true
		l.signalLocked()
	}
}

// Break makes every later write fail with err (nil restores).
func (l *Link) Break(err error) {
	l.W.mu.Lock()
	l.werr = err
	l.W.mu.Unlock()
}

// Inject queues bytes for the reader as if the writer had written them (harness use; no yield).
func (l *Link) Inject(data []byte) {
	l.W.mu.Lock()
	defer l.W.mu.Unlock()
	at := l.W.Now()
	if at < l.lastAt {
		at = l.lastAt
	}
	l.segs = append(l.segs, &seg{data: append([]byte(nil), data...), at: at})
	l.signalLocked()
}

// NSentTotal is the number of bytes ever written to the link.
func (l *Link) NSentTotal() int64 {
	l.W.mu.Lock()
	defer l.W.mu.Unlock()
	return l.NSent
}

// NSentInt is the number of bytes written so far (recorded stream offset).
func (l *Link) NSentInt() int {
	l.W.mu.Lock()
	defer l.W.mu.Unlock()
	return len(l.Sent)
}

// Drain discards everything queued for the reader (what an idle shell would have consumed).
func (l *Link) Drain() int {
	l.W.mu.Lock()
	defer l.W.mu.Unlock()
	n := 0
	for _, s := range l.segs {
		n += len(s.data)
	}
	l.segs = nil
	return n
}

// WriterClosed reports whether the writing side has been closed (the reader sees EOF).
func (l *Link) WriterClosed() bool {
	l.W.mu.Lock()
	defer l.W.mu.Unlock()
	return l.eof
}

// ReaderClosed reports whether the reading side has been closed.
func (l *Link) ReaderClosed() bool {
	l.W.mu.Lock()
	defer l.W.mu.Unlock()
	return l.rclosed
}

// Pending reports bytes queued but not yet read.
func (l *Link) Pending() int {
	l.W.mu.Lock()
	defer l.W.mu.Unlock()
	n := 0
	for _, s := range l.segs {
		n += len(s.data)
	}
	return n
}

// Snapshot returns copies of the recorded streams.
func (l *Link) Snapshot() (sent, deliv []byte, ev []LinkEvent) {
	l.W.mu.Lock()
	defer l.W.mu.Unlock()
	return append([]byte(nil), l.Sent...), append([]byte(nil), l.Deliv...), append([]LinkEvent(nil), l.Events...)
}

// ---------------------------------------------------------------------------------------------
// in-memory TCP

type Listener struct {
	w        *World
	port     int
	q        chan *Conn
	closed   chan struct{}
	isDone   bool
	Accepted int
	Owner    *Proc
}

// ListenFail makes the next NetListen calls fail (tunnel unavailable).
var errListen = errors.New("simulated listen failure")

func NetListen(network, addr string) (net.Listener, error) {
	w := cur.Load()
	if w == nil {
		return net.Listen(network, addr)
	}
	Yield("listen")
	w.mu.Lock()
	defer w.mu.Unlock()
	p := curProcLocked(w)
	if p != nil && p.Env["VERIF_NO_LISTEN"] == "1" {
		return nil, errListen
	}
	w.nextPort++
	l := &Listener{w: w, port: w.nextPort, q: make(chan *Conn, 64), closed: make(chan struct{}), Owner: p}
	w.NetPorts[l.port] = l
	return l, nil
}

func curProcLocked(w *World) *Proc {
	t := w.tasks[goid()]
	if t == nil {
		return w.DefaultProc
	}
	return t.Proc
}

func (l *Listener) Accept() (net.Conn, error) {
	for {
		Yield("accept")
		select {
		case <-l.closed:
			return nil, net.ErrClosed
		default:
		}
		select {
		case c := <-l.q:
			l.w.mu.Lock()
			l.Accepted++
			l.w.mu.Unlock()
			return c, nil
		default:
		}
		select {
		case <-l.closed:
			return nil, net.ErrClosed
		case c := <-l.q:
			l.w.mu.Lock()
			l.Accepted++
			l.w.mu.Unlock()
			return c, nil
		}
	}
}

func (l *Listener) Close() error {
	Yield("lclose")
	l.w.mu.Lock()
	var queued []*Conn
	if !l.isDone {
		l.isDone = true
		close(l.closed)
		delete(l.w.NetPorts, l.port)
		// connections still waiting in the accept queue are reset, as a kernel does when the listening
		// socket goes away
		for more := true; more; {
			select {
			case c := <-l.q:
				queued = append(queued, c)
			default:
				more = false
			}
		}
	}
	l.w.mu.Unlock()
	for _, c := range queued {
		c.Wr.closeNoYield()
		c.R.CloseRead()
	}
	return nil
}

func (l *Listener) Addr() net.Addr { return &net.TCPAddr{IP: net.IPv4(127, 0, 0, 1), Port: l.port} }
func (l *Listener) Port() int      { return l.port }

type Conn struct {
	R, Wr  *Link
	Owner  *Proc // the process holding this end (nil: nobody in particular, e.g. a scripted attacker)
	Name   string
	local  net.Addr
	remote net.Addr
	Peer   *Conn
}

func (c *Conn) Read(p []byte) (int, error)  { return c.R.Read(p) }
func (c *Conn) Write(p []byte) (int, error) { return c.Wr.Write(p) }
func (c *Conn) Close() error {
	c.Wr.Close()
	c.R.CloseRead()
	return nil
}
func (c *Conn) LocalAddr() net.Addr                { return c.local }
func (c *Conn) RemoteAddr() net.Addr               { return c.remote }
func (c *Conn) SetDeadline(t time.Time) error      { return nil }
func (c *Conn) SetReadDeadline(t time.Time) error  { return nil }
func (c *Conn) SetWriteDeadline(t time.Time) error { return nil }

// closeListenersOf: a process that is gone no longer listens (its ports refuse connections, what waited in
// its accept queues is reset). Called without yielding: it is the kernel's doing, not the process's.
func (w *World) closeListenersOf(p *Proc) {
	w.mu.Lock()
	var queued []*Conn
	for port, l := range w.NetPorts {
		if l.Owner != p || l.isDone {
			continue
		}
		l.isDone = true
		close(l.closed)
		delete(w.NetPorts, port)
		for more := true; more; {
			select {
			case c := <-l.q:
				queued = append(queued, c)
			default:
				more = false
			}
		}
	}
	// ... and every connection the process held is closed with it
	for _, c := range w.conns {
		if c.Owner == p {
			queued = append(queued, c)
		}
	}
	w.mu.Unlock()
	for _, c := range queued {
		c.Wr.closeNoYield()
		c.R.CloseRead()
	}
}

// ListenerOf returns the open listener owned by process p (nil if none).
func (w *World) ListenerOf(p *Proc) *Listener {
	w.mu.Lock()
	defer w.mu.Unlock()
	var best *Listener
	for _, l := range w.NetPorts {
		if l.Owner == p && (best == nil || l.port < best.port) {
			best = l
		}
	}
	return best
}

// Dial connects to a simulated port; it returns the client side or nil when nobody listens.
// cfg (optional) is applied to both links of the connection.
func (w *World) Dial(port int, name string, cfg func(l *Link)) *Conn {
	return w.DialHost(nil, port, name, cfg)
}

// DialHost is Dial restricted to a listener owned by process host (each simulated process is its
// own host: a port number only means something on the machine the connector reaches).
func (w *World) DialHost(host *Proc, port int, name string, cfg func(l *Link)) *Conn {
	Yield("dial")
	w.mu.Lock()
	ln := w.NetPorts[port]
	w.mu.Unlock()
	if ln == nil || (host != nil && ln.Owner != host) {
		return nil
	}
	a2b := w.NewLink(name + ">")
	b2a := w.NewLink(name + "<")
	if cfg != nil {
		cfg(a2b)
		cfg(b2a)
	}
	la := &net.TCPAddr{IP: net.IPv4(127, 0, 0, 1), Port: 50000}
	lb := &net.TCPAddr{IP: net.IPv4(127, 0, 0, 1), Port: port}
	cl := &Conn{R: b2a, Wr: a2b, Name: name + ".c", local: la, remote: lb}
	sv := &Conn{R: a2b, Wr: b2a, Name: name + ".s", local: lb, remote: la}
	cl.Peer, sv.Peer = sv, cl
	sv.Owner = ln.Owner
	cl.Owner = curProc()
	w.mu.Lock()
	w.conns = append(w.conns, cl, sv)
	w.mu.Unlock()
	select {
	case <-ln.closed:
		return nil
	default:
	}
	select {
	case ln.q <- sv:
		return cl
	default:
		return nil
	}
}

func indexAll(b []byte, c byte) []int {
	var out []int
	for i, x := range b {
		if x == c {
			out = append(out, i)
			if len(out) >= 64 {
				break
			}
		}
	}
	return out
}
