// Package verifsim is the deterministic-simulation runtime injected into a scratch copy of
// trzsz-go (see /verif/DESIGN.md §2). With no active World every entry point is a pass-through,
// so the rewritten package behaves like the original.
package verifsim

import (
	"fmt"
	"hash/fnv"
	"reflect"
	"runtime"
	"runtime/debug"
	"sort"
	"strconv"
	"strings"
	"sync"
	"sync/atomic"
	"testing/synctest"
	"time"
)

// Task is one gated goroutine.
type Task struct {
	ID       string
	Proc     *Proc
	kids     int
	site     string
	gate     chan struct{}
	wantMu   *sync.Mutex // parked on Lock(m)
	parked   bool
	prio     int // PCT priority
	free     bool
	spin     int // consecutive picks at the same site
	lastSite string
}

// World is one simulated execution. All fields are protected by mu, which is never held
// across a blocking operation.
type World struct {
	BufQueue int     // 0: the shipped capacity of the received-reads queue (see BufQueueCap)
	temps    int     // temp files created so far (FsCreateTemp)
	conns    []*Conn // every in-memory TCP connection end, for process death
	links    []*Link
	mu       sync.Mutex
	Tape     *Tape
	tasks    map[int64]*Task
	parked   []*Task
	poke     chan struct{}
	never    chan struct{}
	ext      map[string]int
	locks    map[*sync.Mutex]*Task
	last     *Task
	Steps    int
	MaxStep  int
	traceH   uint64
	TraceOn  bool
	Trace    []string
	start    time.Time
	stopped  bool

	strategy  int // 0 random, 1 pct, 2 run-to-block
	pctPoints map[int]bool
	preemptPm int

	DefaultProc *Proc
	procs       []*Proc
	NetPorts    map[int]*Listener
	nextPort    int
	Exec        ExecHandler
	Disk        *DiskFaults
	Ttys        map[string]File
	Probes      map[string]int
	SwitchPairs map[string]int

	idleLimit time.Duration
	Quiesced  bool // ended because nothing could ever happen again
	StepCap   bool
}

var cur atomic.Pointer[World]

// Current returns the active world or nil.
func Current() *World { return cur.Load() }

func goid() int64 {
	var buf [64]byte
	n := runtime.Stack(buf[:], false)
	// "goroutine 123 [running]:"
	s := buf[10:n]
	i := 0
	for i < len(s) && s[i] >= '0' && s[i] <= '9' {
		i++
	}
	id, _ := strconv.ParseInt(string(s[:i]), 10, 64)
	return id
}

// NewWorld creates a world; must be called inside the synctest bubble by its root goroutine.
func NewWorld(tape *Tape) *World {
	w := &World{
		Tape:        tape,
		tasks:       map[int64]*Task{},
		poke:        make(chan struct{}, 1),
		never:       make(chan struct{}),
		ext:         map[string]int{},
		locks:       map[*sync.Mutex]*Task{},
		MaxStep:     400000,
		start:       time.Now(),
		NetPorts:    map[int]*Listener{},
		nextPort:    40000,
		Ttys:        map[string]File{},
		Probes:      map[string]int{},
		SwitchPairs: map[string]int{},
		idleLimit:   4 * time.Hour,
		traceH:      1469598103934665603,
	}
	w.DefaultProc = w.NewProc("harness")
	root := &Task{ID: "r", Proc: w.DefaultProc, free: true}
	w.tasks[goid()] = root
	// strategy choice (swarm)
	w.strategy = tape.Draw("strategy", 3)
	switch w.strategy {
	case 1:
		w.pctPoints = map[int]bool{}
		d := 1 + tape.Draw("pct.d", 3)
		for i := 0; i < d; i++ {
			w.pctPoints[tape.Draw("pct.point", 3000)] = true
		}
	case 2:
		w.preemptPm = []int{5, 20, 60, 150}[tape.Draw("rtb.p", 4)]
	}
	cur.Store(w)
	return w
}

// Close deactivates the world; every task that yields afterwards parks forever.
func (w *World) Close() {
	w.mu.Lock()
	w.stopped = true
	w.mu.Unlock()
	cur.CompareAndSwap(w, nil)
}

// Now is the simulated time since the world started.
func (w *World) Now() time.Duration { return time.Since(w.start) }

func (w *World) Probe(name string) {
	w.mu.Lock()
	w.Probes[name]++
	w.mu.Unlock()
}

func (w *World) taskLocked(g int64, site string) *Task {
	t := w.tasks[g]
	if t == nil {
		w.ext[site]++
		t = &Task{ID: fmt.Sprintf("x(%s#%d)", site, w.ext[site]), Proc: w.DefaultProc}
		w.tasks[g] = t
	}
	return t
}

// CurrentTask returns the task of the calling goroutine (creating an external one if needed).
func (w *World) CurrentTask(site string) *Task {
	g := goid()
	w.mu.Lock()
	defer w.mu.Unlock()
	return w.taskLocked(g, site)
}

// Spawn allocates the lineage id for a goroutine about to be started by the caller.
func Spawn(site string) *Task {
	w := cur.Load()
	if w == nil {
		return nil
	}
	g := goid()
	w.mu.Lock()
	defer w.mu.Unlock()
	p := w.taskLocked(g, site)
	p.kids++
	return &Task{ID: p.ID + "." + strconv.Itoa(p.kids), Proc: p.Proc}
}

// Enter binds the calling goroutine to the task allocated by Spawn.
func Enter(t *Task) {
	if t == nil {
		return
	}
	w := cur.Load()
	if w == nil {
		return
	}
	g := goid()
	w.mu.Lock()
	w.tasks[g] = t
	w.mu.Unlock()
	Yield("enter")
}

// Leave unbinds the goroutine.
func Leave(t *Task) {
	if t == nil {
		return
	}
	w := cur.Load()
	if w == nil {
		return
	}
	g := goid()
	w.mu.Lock()
	delete(w.tasks, g)
	w.mu.Unlock()
}

// Go starts f as a gated task of process p (harness use).
func (w *World) Go(site string, p *Proc, f func()) {
	t := Spawn(site)
	if t == nil {
		go f()
		return
	}
	if p != nil {
		t.Proc = p
	}
	go func() {
		Enter(t)
		defer Leave(t)
		f()
	}()
}

func (w *World) park(t *Task, site string, m *sync.Mutex) {
	w.mu.Lock()
	if w.stopped || (t.Proc != nil && t.Proc.dead && !t.free) {
		w.mu.Unlock()
		<-w.never
		return
	}
	t.site = site
	t.wantMu = m
	t.gate = make(chan struct{})
	t.parked = true
	w.parked = append(w.parked, t)
	gate := t.gate
	w.mu.Unlock()
	select {
	case w.poke <- struct{}{}:
	default:
	}
	<-gate
}

// Yield is a scheduling point: the caller parks until the scheduler releases it.
func Yield(site string) {
	w := cur.Load()
	if w == nil {
		return
	}
	g := goid()
	w.mu.Lock()
	t := w.taskLocked(g, site)
	w.mu.Unlock()
	if t.free {
		return
	}
	w.park(t, site, nil)
}

// Sleep is time.Sleep followed by a scheduling point, so code that wakes on the fake clock never
// touches shared state before the scheduler has seen it.
func Sleep(d time.Duration) {
	time.Sleep(d)
	Yield("sleep")
}

// Lock acquires m through the scheduler: a task whose next action is Lock on a held mutex is
// not enabled (a goroutine blocked inside sync.Mutex is not durably blocked for synctest).
func Lock(m *sync.Mutex, site string) {
	w := cur.Load()
	if w == nil {
		m.Lock()
		return
	}
	g := goid()
	w.mu.Lock()
	t := w.taskLocked(g, site)
	w.mu.Unlock()
	if t.free {
		m.Lock()
		return
	}
	w.park(t, site, m)
	// the scheduler recorded us as holder when it released us
	m.Lock()
}

func Unlock(m *sync.Mutex) {
	w := cur.Load()
	if w != nil {
		w.mu.Lock()
		delete(w.locks, m)
		w.mu.Unlock()
	}
	m.Unlock()
}

// ---------------------------------------------------------------------------------------------
// select

type SelCase struct {
	send bool
	ch   reflect.Value
	val  reflect.Value
}

func RecvCase(c any) SelCase { return SelCase{ch: reflect.ValueOf(c)} }

func SendCase(c any, v any) SelCase {
	ch := reflect.ValueOf(c)
	elem := ch.Type().Elem()
	val := reflect.ValueOf(v)
	if !val.IsValid() {
		val = reflect.Zero(elem)
	} else if val.Type() != elem {
		val = val.Convert(elem)
	}
	return SelCase{send: true, ch: ch, val: val}
}

// As converts the value received by Select to the element type of c.
func As[T any](c <-chan T, rv reflect.Value) T {
	var z T
	if rv.IsValid() {
		reflect.ValueOf(&z).Elem().Set(rv)
	}
	return z
}

func nativeSelect(hasDefault bool, cases []SelCase) (int, reflect.Value, bool) {
	rc := make([]reflect.SelectCase, 0, len(cases)+1)
	for _, c := range cases {
		if c.send {
			rc = append(rc, reflect.SelectCase{Dir: reflect.SelectSend, Chan: c.ch, Send: c.val})
		} else {
			rc = append(rc, reflect.SelectCase{Dir: reflect.SelectRecv, Chan: c.ch})
		}
	}
	if hasDefault {
		rc = append(rc, reflect.SelectCase{Dir: reflect.SelectDefault})
	}
	i, rv, ok := reflect.Select(rc)
	if hasDefault && i == len(cases) {
		return -1, reflect.Value{}, false
	}
	return i, rv, ok
}

// Select replaces a select statement. Under a world it polls the cases in a tape-chosen order
// (so the choice among simultaneously ready cases is a recorded decision, not the runtime's
// random one) and otherwise blocks in one native select over all cases.
func Select(site string, hasDefault bool, cases ...SelCase) (int, reflect.Value, bool) {
	w := cur.Load()
	if w == nil {
		return nativeSelect(hasDefault, cases)
	}
	Yield(site)
	w = cur.Load()
	if w == nil {
		return nativeSelect(hasDefault, cases)
	}
	n := len(cases)
	start := 0
	if n > 1 {
		w.mu.Lock()
		start = w.Tape.Rare("sel", n, 250)
		w.mu.Unlock()
	}
	for j := 0; j < n; j++ {
		i := (start + j) % n
		c := cases[i]
		if c.ch.IsNil() {
			continue
		}
		if c.send {
			if c.ch.TrySend(c.val) {
				return i, reflect.Value{}, false
			}
		} else {
			rv, ok := c.ch.TryRecv()
			if ok || rv.IsValid() {
				return i, rv, ok
			}
		}
	}
	if hasDefault {
		return -1, reflect.Value{}, false
	}
	return nativeSelect(false, cases)
}

// ---------------------------------------------------------------------------------------------
// scheduler

func (w *World) enabledLocked() []*Task {
	var e []*Task
	for _, t := range w.parked {
		if t.wantMu != nil {
			if _, held := w.locks[t.wantMu]; held {
				continue
			}
		}
		if t.Proc != nil && t.Proc.stallUntil > 0 && w.Now() < t.Proc.stallUntil {
			continue
		}
		e = append(e, t)
	}
	sort.Slice(e, func(i, j int) bool { return e[i].ID < e[j].ID })
	// A task that keeps coming back to the same scheduling point without ever blocking is a busy
	// loop. The fake clock only moves when everything is blocked, so a busy loop would freeze time
	// for the whole world; it is scheduled only when nothing else can run, after the clock has been
	// advanced (see Run).
	var calm []*Task
	for _, t := range e {
		if t.spin < spinLimit {
			calm = append(calm, t)
		}
	}
	if len(calm) > 0 {
		return calm
	}
	return e
}

const spinLimit = 20000

func (w *World) pickLocked(e []*Task) *Task {
	if len(e) == 1 {
		return e[0]
	}
	switch w.strategy {
	case 1: // PCT-style: fixed random priorities, a few priority-change points
		for _, t := range e {
			if t.prio == 0 {
				t.prio = 1 + w.Tape.Draw("prio", 1000000)
			}
		}
		best := e[0]
		for _, t := range e[1:] {
			if t.prio > best.prio || (t.prio == best.prio && t.ID < best.ID) {
				best = t
			}
		}
		if w.pctPoints[w.Steps] {
			best.prio = 1 // demote
		}
		return best
	case 2: // run to block with rare preemption
		if w.last != nil {
			for _, t := range e {
				if t == w.last {
					if w.Tape.Rare("preempt", 2, w.preemptPm) == 0 {
						return t
					}
					break
				}
			}
		}
		return e[w.Tape.Draw("pick", len(e))]
	}
	// 0 on the tape = keep running the last task when possible (boring choice)
	k := w.Tape.Draw("pick", len(e))
	if w.last != nil {
		for i, t := range e {
			if t == w.last {
				e[0], e[i] = e[i], e[0]
				break
			}
		}
	}
	return e[k]
}

// Run drives the schedule until done() reports true (evaluated at quiescent points with the
// world lock NOT held), the step cap is hit, or nothing can ever happen again.
func (w *World) Run(done func() bool) {
	for {
		synctest.Wait()
		if done() {
			return
		}
		// done() may have started tasks (timers, injected events): let them reach their first
		// scheduling point before the enabled set is computed
		synctest.Wait()
		w.mu.Lock()
		if w.Steps >= w.MaxStep {
			w.StepCap = true
			w.mu.Unlock()
			return
		}
		e := w.enabledLocked()
		if len(e) == 0 {
			var wait time.Duration = w.idleLimit
			for _, t := range w.parked {
				if t.Proc != nil && t.Proc.stallUntil > w.Now() {
					if d := t.Proc.stallUntil - w.Now(); d < wait {
						wait = d
					}
				}
			}
			w.mu.Unlock()
			tm := time.NewTimer(wait)
			select {
			case <-w.poke:
				tm.Stop()
			case <-tm.C:
				if wait == w.idleLimit {
					w.Quiesced = true
					return
				}
			}
			continue
		}
		if e[0].spin >= spinLimit {
			// only busy loops are runnable: let simulated time pass
			if e[0].spin == spinLimit {
				w.Probes["busyloop:"+e[0].site]++
			}
			w.mu.Unlock()
			time.Sleep(time.Millisecond)
			w.mu.Lock()
		}
		t := w.pickLocked(e)
		if t.site == t.lastSite && t.site != "sleep" {
			t.spin++
		} else {
			t.spin = 0
			t.lastSite = t.site
		}
		for i, p := range w.parked {
			if p == t {
				w.parked = append(w.parked[:i], w.parked[i+1:]...)
				break
			}
		}
		t.parked = false
		if t.wantMu != nil {
			w.locks[t.wantMu] = t
			t.wantMu = nil
		}
		w.Steps++
		if w.last != nil && w.last != t {
			k := w.last.site + ">" + t.site
			if len(w.SwitchPairs) < 100000 {
				w.SwitchPairs[k]++
			}
		}
		w.last = t
		h := fnv.New64a()
		h.Write([]byte(t.ID))
		h.Write([]byte{0})
		h.Write([]byte(t.site))
		w.traceH = (w.traceH ^ h.Sum64()) * 1099511628211
		if w.TraceOn {
			w.Trace = append(w.Trace, fmt.Sprintf("%d %s %s @%v", w.Steps, t.ID, t.site, w.Now()))
		}
		gate := t.gate
		w.mu.Unlock()
		close(gate)
	}
}

// ProcOfGoroutine maps a goroutine id (as printed in a stack dump) to its simulated process.
func (w *World) ProcOfGoroutine(id int64) *Proc {
	w.mu.Lock()
	defer w.mu.Unlock()
	if t := w.tasks[id]; t != nil {
		return t.Proc
	}
	return nil
}

// TraceHash identifies the schedule that was executed.
func (w *World) TraceHash() string { return fmt.Sprintf("%016x", w.traceH) }

// ParkedSummary lists where tasks are parked (diagnostics).
func (w *World) ParkedSummary() string {
	w.mu.Lock()
	defer w.mu.Unlock()
	var s []string
	for _, t := range w.parked {
		s = append(s, t.ID+"@"+t.site)
	}
	sort.Strings(s)
	return strings.Join(s, " ")
}

// Stack replaces runtime/debug.Stack in the instrumented package: the genuine text contains
// goroutine ids and pointer values, which would make the bytes of FAIL messages (and with them
// every later segmentation decision) differ from run to run. Function names and lines are kept.
func Stack() []byte {
	if cur.Load() == nil {
		return debugStack()
	}
	pc := make([]uintptr, 32)
	n := runtime.Callers(2, pc)
	frames := runtime.CallersFrames(pc[:n])
	var b strings.Builder
	b.WriteString("goroutine [running]:\n")
	for {
		f, more := frames.Next()
		if !strings.Contains(f.Function, "verifsim.") {
			file := f.File
			if i := strings.LastIndex(file, "/"); i >= 0 {
				file = file[i+1:]
			}
			fmt.Fprintf(&b, "%s()\n\t%s\n", f.Function, file)
		}
		if !more {
			break
		}
	}
	return []byte(b.String())
}

func debugStack() []byte { return debug.Stack() }
