// Package simsignal substitutes os/signal in the rewritten package: under a simulated world the
// channel is registered with the calling task's process and signals are delivered by the simulator.
package simsignal

import (
	"os"
	"os/signal"

	"github.com/trzsz/trzsz-go/internal/verifsim"
)

func Notify(c chan<- os.Signal, sig ...os.Signal) {
	if verifsim.RegisterSignal(c, sig...) {
		return
	}
	signal.Notify(c, sig...)
}

func Stop(c chan<- os.Signal) {
	if verifsim.Current() != nil {
		return
	}
	signal.Stop(c)
}
