package verifsim

import (
	"fmt"
	"io"
	"io/fs"
	"os"
	"path/filepath"
	"strings"
	"sync"
	"time"
)

// File is what the rewritten package sees instead of *os.File for process stdio.
type File interface {
	io.Reader
	io.Writer
	WriteString(string) (int, error)
	Sync() error
	Close() error
	Fd() uintptr
}

// SimFile adapts a reader/writer pair to File.
type SimFile struct {
	R       io.Reader
	W       io.Writer
	mu      sync.Mutex
	Closed  bool
	OnClose func()
}

func (f *SimFile) Read(p []byte) (int, error) {
	if f.R == nil {
		return 0, io.EOF
	}
	return f.R.Read(p)
}
func (f *SimFile) Write(p []byte) (int, error) {
	if f.W == nil {
		return len(p), nil
	}
	return f.W.Write(p)
}
func (f *SimFile) WriteString(s string) (int, error) { return f.Write([]byte(s)) }
func (f *SimFile) Sync() error                       { return nil }
func (f *SimFile) Close() error {
	f.mu.Lock()
	was := f.Closed
	f.Closed = true
	f.mu.Unlock()
	if !was && f.OnClose != nil {
		f.OnClose()
	}
	return nil
}
func (f *SimFile) Fd() uintptr { return ^uintptr(0) }

// Proc is a simulated OS process: stdio, args, environment, signal handlers, liveness.
type Proc struct {
	Name       string
	W          *World
	Stdin      File
	Stdout     File
	Stderr     File
	Args       []string
	Env        map[string]string
	Windows    *bool // affected-by-Windows flag (nil = package default)
	dead       bool
	Exited     bool
	ExitCode   int
	ExitAt     time.Duration
	sigs       []sigSub
	Killed     bool // ended by a signal it had not subscribed for
	stallUntil time.Duration
	isReal     bool
}

func (w *World) NewProc(name string) *Proc {
	p := &Proc{Name: name, W: w, Env: map[string]string{}}
	w.procs = append(w.procs, p)
	return p
}

// Start runs main as the process's main task.
func (p *Proc) Start(site string, main func() int) {
	p.W.Go(site, p, func() {
		code := main()
		p.W.mu.Lock()
		p.ExitCode = code
		p.Exited = true
		p.ExitAt = p.W.Now()
		p.dead = true
		p.W.mu.Unlock()
		p.W.closeListenersOf(p)
	})
}

func (p *Proc) Dead() bool {
	p.W.mu.Lock()
	defer p.W.mu.Unlock()
	return p.dead
}

// Kill marks the process dead: its tasks park forever at their next scheduling point.
func (p *Proc) Kill() {
	p.W.mu.Lock()
	p.dead = true
	if !p.Exited {
		p.Exited, p.Killed, p.ExitCode, p.ExitAt = true, true, -1, p.W.Now()
	}
	p.W.mu.Unlock()
	p.W.closeListenersOf(p)
}

// Stall keeps every task of the process off the CPU for d of simulated time.
func (p *Proc) Stall(d time.Duration) {
	p.W.mu.Lock()
	p.stallUntil = p.W.Now() + d
	p.W.mu.Unlock()
}

// Signal delivers sig to every channel the process subscribed for it with signal.Notify. A signal nobody
// subscribed for has its default action: SIGINT and SIGTERM end the process on the spot (no handler runs,
// nothing is written, its sockets close); the return value is then -1.
func (p *Proc) Signal(sig os.Signal) int {
	p.W.mu.Lock()
	var chans []chan<- os.Signal
	for _, s := range p.sigs {
		if len(s.sigs) == 0 {
			chans = append(chans, s.c)
			continue
		}
		for _, want := range s.sigs {
			if want == sig {
				chans = append(chans, s.c)
				break
			}
		}
	}
	p.W.mu.Unlock()
	if len(chans) == 0 {
		p.W.mu.Lock()
		p.dead = true
		p.Killed = true
		p.Exited = true
		p.ExitCode = -1
		p.ExitAt = p.W.Now()
		p.W.mu.Unlock()
		p.W.closeListenersOf(p)
		return -1
	}
	n := 0
	for _, c := range chans {
		select {
		case c <- sig:
			n++
		default:
		}
	}
	return n
}

type sigSub struct {
	c    chan<- os.Signal
	sigs []os.Signal
}

// RegisterSignal is called by the os/signal substitute.
func RegisterSignal(c chan<- os.Signal, sigs ...os.Signal) bool {
	w := cur.Load()
	if w == nil {
		return false
	}
	t := w.CurrentTask("signal")
	w.mu.Lock()
	t.Proc.sigs = append(t.Proc.sigs, sigSub{c, append([]os.Signal(nil), sigs...)})
	w.mu.Unlock()
	return true
}

func curProc() *Proc {
	w := cur.Load()
	if w == nil {
		return nil
	}
	t := w.CurrentTask("proc")
	return t.Proc
}

func Stdin() File {
	if p := curProc(); p != nil && p.Stdin != nil {
		return p.Stdin
	}
	return os.Stdin
}

func Stdout() File {
	if p := curProc(); p != nil && p.Stdout != nil {
		return p.Stdout
	}
	return os.Stdout
}

func Stderr() File {
	if p := curProc(); p != nil && p.Stderr != nil {
		return p.Stderr
	}
	return os.Stderr
}

func Args() []string {
	if p := curProc(); p != nil && p.Args != nil {
		return p.Args
	}
	return os.Args
}

func LookupEnv(k string) (string, bool) {
	if p := curProc(); p != nil {
		v, ok := p.Env[k]
		return v, ok
	}
	return os.LookupEnv(k)
}

func Getenv(k string) string {
	v, _ := LookupEnv(k)
	return v
}

// WindowsEnv is the entry hook of isWindowsEnvironment.
func WindowsEnv() (bool, bool) {
	if p := curProc(); p != nil && p.Windows != nil {
		return *p.Windows, true
	}
	return false, false
}

type fakeInfo struct{ name string }

func (f fakeInfo) Name() string       { return f.name }
func (f fakeInfo) Size() int64        { return 0 }
func (f fakeInfo) Mode() fs.FileMode  { return fs.ModeCharDevice | 0600 }
func (f fakeInfo) ModTime() time.Time { return time.Time{} }
func (f fakeInfo) IsDir() bool        { return false }
func (f fakeInfo) Sys() any           { return nil }

// TtyStat / TtyOpen stand in for os.Stat / os.OpenFile inside checkTmux.
func TtyStat(path string) (fs.FileInfo, error) {
	if w := cur.Load(); w != nil {
		w.mu.Lock()
		_, ok := w.Ttys[path]
		w.mu.Unlock()
		if ok {
			return fakeInfo{path}, nil
		}
		return nil, &fs.PathError{Op: "stat", Path: path, Err: fs.ErrNotExist}
	}
	return os.Stat(path)
}

func TtyOpen(path string, flag int, perm fs.FileMode) (File, error) {
	if w := cur.Load(); w != nil {
		w.mu.Lock()
		f, ok := w.Ttys[path]
		w.mu.Unlock()
		if ok {
			return f, nil
		}
		return nil, &fs.PathError{Op: "open", Path: path, Err: fs.ErrNotExist}
	}
	f, err := os.OpenFile(path, flag, perm)
	if err != nil {
		return nil, err
	}
	return f, nil
}

// ---------------------------------------------------------------------------------------------
// child processes (os/exec substitute backend)

// ExecRequest describes a command the package wants to run.
type ExecRequest struct {
	Proc   *Proc
	Name   string
	Args   []string
	Dir    string
	Env    []string
	Stdin  io.Reader
	Stdout io.Writer
	Stderr io.Writer
}

// ExecChild is a running scripted child.
type ExecChild interface {
	Wait() int // blocks until exit, returns the exit code
	Kill()
}

// ExecHandler decides what a command does. Returning (nil, err) means the command could not be
// started (e.g. not found in PATH).
type ExecHandler func(req *ExecRequest) (ExecChild, error)

// ---------------------------------------------------------------------------------------------
// disk faults (entry hooks of simpleFileReader.Read / simpleFileWriter.Write)

type DiskFaults struct {
	ReadCalls   int
	WriteCalls  int
	FailReadAt  int // 1-based call index, 0 = never
	FailWriteAt int
	ReadErr     error
	WriteErr    error
	ShortWrite  bool // the failing write stores half of the data first
	FiredRead   int
	FiredWrite  int
	OnRead      func(call int, f *os.File)
	OnCreate    func(path string) // a destination file or directory is about to be created
	Creates     int
	OnWrite     func(call int, f *os.File)
}

func FileReadHook(f *os.File, p []byte) (int, error, bool) {
	w := cur.Load()
	if w == nil || w.Disk == nil {
		return 0, nil, false
	}
	w.mu.Lock()
	d := w.Disk
	d.ReadCalls++
	call := d.ReadCalls
	fail := d.FailReadAt > 0 && call >= d.FailReadAt
	on := d.OnRead
	w.mu.Unlock()
	if on != nil {
		on(call, f)
	}
	if fail {
		w.mu.Lock()
		d.FiredRead++
		w.mu.Unlock()
		return 0, d.ReadErr, true
	}
	return 0, nil, false
}

func FileWriteHook(f *os.File, p []byte) (int, error, bool) {
	w := cur.Load()
	if w == nil || w.Disk == nil {
		return 0, nil, false
	}
	w.mu.Lock()
	d := w.Disk
	d.WriteCalls++
	call := d.WriteCalls
	fail := d.FailWriteAt > 0 && call >= d.FailWriteAt
	on := d.OnWrite
	w.mu.Unlock()
	if on != nil {
		on(call, f)
	}
	if fail {
		w.mu.Lock()
		d.FiredWrite++
		w.mu.Unlock()
		n := 0
		if d.ShortWrite && len(p) > 1 {
			n, _ = f.Write(p[:len(p)/2])
		}
		return n, d.WriteErr, true
	}
	return 0, nil, false
}

// CurProc is the simulated process the calling goroutine belongs to (nil outside any).
func CurProc() *Proc { return curProc() }

// FsOpenFile / FsMkdirAll stand in for os.OpenFile / os.MkdirAll where the package creates destination entries:
// a scheduling point, and a place where a scenario can make the disk slow.
func FsOpenFile(path string, flag int, perm fs.FileMode) (*os.File, error) {
	fsCreateHook(path)
	return os.OpenFile(path, flag, perm)
}

func FsMkdirAll(path string, perm fs.FileMode) error {
	fsCreateHook(path)
	return os.MkdirAll(path, perm)
}

func fsCreateHook(path string) {
	w := cur.Load()
	if w == nil {
		return
	}
	Yield("fs.create")
	if w.Disk != nil {
		w.mu.Lock()
		w.Disk.Creates++
		on := w.Disk.OnCreate
		w.mu.Unlock()
		if on != nil {
			on(path)
		}
	}
}

// FsCreateTemp stands in for os.CreateTemp (the trace log file): the same name in every run of a scenario.
// BufQueueCap is the capacity of a transfer's queue of received reads (10000 in the shipped code): a tuning
// knob a scenario may turn down so that the queue fills up within a run of ordinary length.
func BufQueueCap() int {
	if w := cur.Load(); w != nil && w.BufQueue > 0 {
		return w.BufQueue
	}
	return 10000
}

func FsCreateTemp(dir, pattern string) (*os.File, error) {
	w := cur.Load()
	if w == nil {
		return os.CreateTemp(dir, pattern)
	}
	if dir == "" {
		dir = os.TempDir()
	}
	w.mu.Lock()
	w.temps++
	n := w.temps
	w.mu.Unlock()
	name := strings.Replace(pattern, "*", fmt.Sprintf("sim%04d", n), 1)
	return os.OpenFile(filepath.Join(dir, name), os.O_RDWR|os.O_CREATE|os.O_TRUNC, 0600)
}
