package verifsim

import (
	"fmt"
	"io"
)

// Tape is the single source of every nondeterministic decision of a run: scheduling, select
// order, link segmentation, latency, faults, generated inputs and tuning knobs. In generation
// mode values come from a splitmix64 stream; in replay mode from the recorded list (draws past
// its end return 0, the "boring" choice). Every draw is recorded, so the tape of a run is its
// replay file.
type Tape struct {
	state  uint64
	replay []uint32
	pos    int
	Rec    []uint32
	Labels []string
	Label  bool
	isRep  bool
	Dump   io.Writer // when set, every draw is written through immediately (crash attribution)
}

func NewTape(seed uint64) *Tape { return &Tape{state: seed} }

func ReplayTape(vals []uint32) *Tape { return &Tape{replay: vals, isRep: true} }

func (t *Tape) IsReplay() bool { return t.isRep }

func (t *Tape) next() uint64 {
	t.state += 0x9e3779b97f4a7c15
	z := t.state
	z = (z ^ (z >> 30)) * 0xbf58476d1ce4e5b9
	z = (z ^ (z >> 27)) * 0x94d049bb133111eb
	return z ^ (z >> 31)
}

// Mix derives a seed from several integers.
func Mix(vals ...uint64) uint64 {
	var s uint64 = 0x243f6a8885a308d3
	for _, v := range vals {
		s ^= v + 0x9e3779b97f4a7c15 + (s << 6) + (s >> 2)
		z := s
		z = (z ^ (z >> 30)) * 0xbf58476d1ce4e5b9
		z = (z ^ (z >> 27)) * 0x94d049bb133111eb
		s = z ^ (z >> 31)
	}
	return s
}

func (t *Tape) record(label string, v int) int {
	t.Rec = append(t.Rec, uint32(v))
	if t.Dump != nil {
		fmt.Fprintf(t.Dump, "%d\n", v)
	}
	if t.Label {
		t.Labels = append(t.Labels, label)
	}
	return v
}

// Draw returns a value in [0,n).
func (t *Tape) Draw(label string, n int) int {
	if n <= 1 {
		return 0
	}
	if t.isRep {
		v := 0
		if t.pos < len(t.replay) {
			v = int(t.replay[t.pos]) % n
		}
		t.pos++
		return t.record(label, v)
	}
	return t.record(label, int(t.next()%uint64(n)))
}

// Rare returns 0 with probability 1-permille/1000, otherwise a value in [1,n).
func (t *Tape) Rare(label string, n int, permille int) int {
	if n <= 1 {
		return 0
	}
	if t.isRep {
		return t.Draw(label, n)
	}
	if int(t.next()%1000) >= permille {
		return t.record(label, 0)
	}
	return t.record(label, 1+int(t.next()%uint64(n-1)))
}

// Bool is Rare with two outcomes.
func (t *Tape) Bool(label string, permille int) bool { return t.Rare(label, 2, permille) == 1 }

// Pick chooses one of the given weights' indices (weights are relative, index 0 should be boring).
func (t *Tape) Pick(label string, weights ...int) int {
	total := 0
	for _, w := range weights {
		total += w
	}
	if t.isRep {
		return t.Draw(label, len(weights))
	}
	x := int(t.next() % uint64(total))
	for i, w := range weights {
		if x < w {
			return t.record(label, i)
		}
		x -= w
	}
	return t.record(label, 0)
}

// Bytes fills a deterministic pseudo-random byte slice without recording each byte: the
// content stream is derived from one recorded draw.
func (t *Tape) Bytes(label string, n int) []byte {
	seed := uint64(t.Draw(label, 1<<30))
	b := make([]byte, n)
	s := Tape{state: Mix(seed, 77)}
	for i := 0; i < n; i += 8 {
		v := s.next()
		for j := 0; j < 8 && i+j < n; j++ {
			b[i+j] = byte(v >> (8 * j))
		}
	}
	return b
}
