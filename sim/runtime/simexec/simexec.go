// Package simexec substitutes os/exec in the rewritten package. With no simulated world it
// delegates to the real os/exec; under a world, commands are handed to the world's ExecHandler
// (scripted tmux/stty/rz/sz), and a world without a handler reports "executable not found".
package simexec

import (
	"bytes"
	"errors"
	"io"
	"os/exec"
	"syscall"

	"github.com/trzsz/trzsz-go/internal/verifsim"
)

var ErrNotFound = exec.ErrNotFound

type Process struct{ c *Cmd }

func (p *Process) Kill() error {
	if p.c.real != nil {
		return p.c.real.Process.Kill()
	}
	verifsim.Yield("exec.kill")
	if p.c.child != nil {
		p.c.child.Kill()
	}
	return nil
}

type ProcessState struct {
	code int
	real interface{ ExitCode() int }
}

func (s *ProcessState) ExitCode() int {
	if s.real != nil {
		return s.real.ExitCode()
	}
	return s.code
}

type Cmd struct {
	Path         string
	Args         []string
	Env          []string
	Dir          string
	Stdin        io.Reader
	Stdout       io.Writer
	Stderr       io.Writer
	SysProcAttr  *syscall.SysProcAttr
	Process      *Process
	ProcessState *ProcessState

	name  string
	real  *exec.Cmd
	child verifsim.ExecChild
	pipes []io.Closer
}

func Command(name string, arg ...string) *Cmd {
	c := &Cmd{Path: name, Args: append([]string{name}, arg...), name: name}
	if verifsim.Current() == nil {
		c.real = exec.Command(name, arg...)
	}
	return c
}

func LookPath(file string) (string, error) {
	if verifsim.Current() == nil {
		return exec.LookPath(file)
	}
	return "", &exec.Error{Name: file, Err: exec.ErrNotFound}
}

func (c *Cmd) sync() {
	c.real.Env, c.real.Dir, c.real.SysProcAttr = c.Env, c.Dir, c.SysProcAttr
	if c.Stdin != nil {
		c.real.Stdin = c.Stdin
	}
	if c.Stdout != nil {
		c.real.Stdout = c.Stdout
	}
	if c.Stderr != nil {
		c.real.Stderr = c.Stderr
	}
}

func (c *Cmd) StdinPipe() (io.WriteCloser, error) {
	if c.real != nil {
		return c.real.StdinPipe()
	}
	w := verifsim.Current()
	if w == nil {
		return nil, errors.New("simexec: no world")
	}
	l := w.NewLink("exec.stdin:" + c.name)
	c.Stdin = l
	return l, nil
}

type linkReadCloser struct{ l *verifsim.Link }

func (r linkReadCloser) Read(p []byte) (int, error) { return r.l.Read(p) }
func (r linkReadCloser) Close() error               { r.l.CloseRead(); return nil }

func (c *Cmd) StdoutPipe() (io.ReadCloser, error) {
	if c.real != nil {
		return c.real.StdoutPipe()
	}
	w := verifsim.Current()
	if w == nil {
		return nil, errors.New("simexec: no world")
	}
	l := w.NewLink("exec.stdout:" + c.name)
	c.Stdout = l
	c.pipes = append(c.pipes, l)
	return linkReadCloser{l}, nil
}

func (c *Cmd) StderrPipe() (io.ReadCloser, error) {
	if c.real != nil {
		return c.real.StderrPipe()
	}
	w := verifsim.Current()
	if w == nil {
		return nil, errors.New("simexec: no world")
	}
	l := w.NewLink("exec.stderr:" + c.name)
	c.Stderr = l
	c.pipes = append(c.pipes, l)
	return linkReadCloser{l}, nil
}

func (c *Cmd) Start() error {
	if c.real != nil {
		c.sync()
		err := c.real.Start()
		if c.real.Process != nil {
			c.Process = &Process{c}
		}
		return err
	}
	verifsim.Yield("exec.start")
	w := verifsim.Current()
	if w == nil || w.Exec == nil {
		return &exec.Error{Name: c.name, Err: exec.ErrNotFound}
	}
	req := &verifsim.ExecRequest{Proc: w.CurrentTask("exec").Proc, Name: c.name, Args: c.Args, Dir: c.Dir, Env: c.Env,
		Stdin: c.Stdin, Stdout: c.Stdout, Stderr: c.Stderr}
	child, err := w.Exec(req)
	if err != nil {
		return err
	}
	c.child = child
	c.Process = &Process{c}
	return nil
}

func (c *Cmd) Wait() error {
	if c.real != nil {
		err := c.real.Wait()
		if c.real.ProcessState != nil {
			c.ProcessState = &ProcessState{real: c.real.ProcessState}
		}
		return err
	}
	if c.child == nil {
		return errors.New("simexec: not started")
	}
	verifsim.Yield("exec.wait")
	code := c.child.Wait()
	verifsim.Yield("exec.waited")
	c.ProcessState = &ProcessState{code: code}
	// the child's ends of the stdout/stderr pipes are closed on exit
	for _, p := range c.pipes {
		p.Close()
	}
	if code != 0 {
		return &exec.ExitError{}
	}
	return nil
}

func (c *Cmd) Run() error {
	if err := c.Start(); err != nil {
		return err
	}
	return c.Wait()
}

func (c *Cmd) Output() ([]byte, error) {
	if c.real != nil {
		c.sync()
		return c.real.Output()
	}
	var b bytes.Buffer
	c.Stdout = &b
	err := c.Run()
	return b.Bytes(), err
}
